#!/bin/bash
# Builds /verif/bin/govc offline from /verif/govc.
set -e
cd "$(dirname "$0")"
. ./env.sh
mkdir -p bin evidence replays
(cd govc && go build -o ../bin/govc .)
echo "govc built: $(ls -la bin/govc | awk '{print $5}') bytes"
