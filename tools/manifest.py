#!/usr/bin/env python3
"""Regenerates /verif/MANIFEST.json from tools/claims.json (per-property level text) and the
hook commits of /repo (messages starting with 'verif hook')."""
import json, subprocess, os
here = os.path.dirname(os.path.abspath(__file__))
root = os.path.dirname(here)
props = [json.loads(l) for l in open(os.path.join(root, 'properties.jsonl'))]
claims = json.load(open(os.path.join(here, 'claims.json')))
log = subprocess.run(['git', '-C', '/repo', 'log', '--format=%H %s'], capture_output=True, text=True).stdout.splitlines()
hooks = [l.split()[0] for l in log if ' verif hook' in l or ' verif contracts' in l]
m = {
 "version": 1,
 "setup_cmd": "./setup.sh",
 "hooks": {"guard": "verif",
           "enable": "-tags verif (govc loads /repo with the tag so that the comment-only contract files internal/*/zz_verif_contracts.go are visible; they contain a package clause and //@ comments only)",
           "baseline_off_cmd": "cd /repo && go test -vet=off -count=1 ./...",
           "source_commits": list(reversed(hooks)), "add_only": True},
 "engines": [{"name": "govc", "path": "/verif/govc", "serves_properties": sorted(claims['claimed'].keys()),
              "kind_free_text": "contract-based deductive verifier for Go written for this task: VC generation by symbolic execution of go/ssa (naive form) of /repo's working tree against //@ contracts kept in /repo/internal/*/zz_verif_contracts.go; obligations discharged by z3 4.8.12 / z3 5.1.0 / cvc5 1.0, raced per obligation"}],
 "checks": [], "not_applicable": [],
 "notes": "see DESIGN.md; ./check <id> quick|thorough; selftest/run.sh runs the must-fail corpus"
}
for p in props:
    c = claims['claimed'].get(p['id'])
    if c:
        m['checks'].append({
            "property_id": p['id'], "quick_cmd": "./check %s quick" % p['id'], "thorough_cmd": "./check %s thorough" % p['id'],
            "evidence_file": "/verif/evidence/%s.json" % p['id'], "engine": "govc",
            "replay_cmd_template": "cat {path}",
            "level_claimed": {"category": c.get('category', 'proof'), "text": c['text'], "design_ref": "DESIGN.md §6 " + p['id']},
            "level_note": c['note'], "technique": c.get('technique', "contract-based deductive verification: VCs generated from go/ssa of the real code, discharged by z3/cvc5")})
    else:
        m['not_applicable'].append({"property_id": p['id'], "reason": claims['not_applicable'].get(p['id'], "not yet under contract in this revision of /verif (work in progress; plan in DESIGN.md §6)")})
json.dump(m, open(os.path.join(root, 'MANIFEST.json'), 'w'), indent=1)
print("claimed:", sorted(claims['claimed'].keys()))
