#!/bin/bash
# usage: tools/axcheck.sh <repo-dir> <suite>   — builds the bounded axiom checker INSIDE the
# module of the given repository copy by means of a build overlay (nothing is written under the
# repository) and runs one suite. Scratch files live under /var/tmp and are removed.
here="$(cd "$(dirname "$0")/.." && pwd)"
. "$here/env.sh"
repo="$(cd "$1" && pwd)"; suite="$2"
d=$(mktemp -d /var/tmp/axcheck-XXXXXX)
trap 'rm -rf "$d"' EXIT
{
  echo '{"Replace":{'
  first=1
  for f in "$here"/axcheck/*.go; do
    [ $first = 1 ] || echo ','
    first=0
    printf '"%s/internal/zz_axcheck/%s":"%s"' "$repo" "$(basename "$f")" "$f"
  done
  echo '}}'
} > "$d/ov.json"
cd "$repo" || exit 2
go build -tags verif -overlay "$d/ov.json" -o "$d/axcheck" ./internal/zz_axcheck 2>"$d/err" || { echo "AXCHECK-BUILD-ERROR: $(head -5 "$d/err" | tr '\n' ' ')"; exit 2; }
"$d/axcheck" "$suite"
