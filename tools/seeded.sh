#!/bin/bash
# usage: tools/seeded.sh <seed-dir> <property> <pkgdir> [more properties...]
# Confirms a seeded change in a scratch copy of /repo (outside /repo and /verif, removed afterwards):
#  - demo passes on the unchanged tree, - with the patch: build + existing tests green, demo fails,
#  - then runs the property's check(s) against the patched copy and reports the verdict.
here="$(cd "$(dirname "$0")/.." && pwd)"
. "$here/env.sh"
seed="$1"; prop="$2"; pkgdir="$3"; shift 3; extra="$*"
scratch=$(mktemp -d /var/tmp/seeded-XXXXXX)
trap 'rm -rf "$scratch"' EXIT
rsync -a --exclude .git /repo/ "$scratch/repo/"
cd "$scratch/repo"
cp "$seed/demo_test.go" "$pkgdir/zz_seeded_demo_test.go"
if go test -count=1 -vet=off ./$pkgdir >"$scratch/demo0.log" 2>&1; then d0=pass; else d0=fail; fi
rm "$pkgdir/zz_seeded_demo_test.go"
if ! patch -p1 -s < "$seed/patch.diff"; then echo "patch does not apply"; exit 2; fi
if go build ./... >"$scratch/build.log" 2>&1 && go test -count=1 -vet=off ./... >"$scratch/tests.log" 2>&1; then t1=green; else t1=RED; fi
cp "$seed/demo_test.go" "$pkgdir/zz_seeded_demo_test.go"
if go test -count=1 -vet=off ./$pkgdir >"$scratch/demo1.log" 2>&1; then d1=pass; else d1=fail; fi
rm "$pkgdir/zz_seeded_demo_test.go"
cd "$here"
verdicts=""
for p in $prop $extra; do
  out=$(bin/govc check -repo "$scratch/repo" -no-evidence -tier quick "$p" 2>&1); rc=$?
  v=$(echo "$out" | grep -E "VIOLATION|ENGINE-ERROR" | head -2 | sed 's/ replay=[^ ]*//' | cut -c1-260 | tr '\n' '|')
  verdicts="$verdicts $p:rc=$rc[$v]"
done
echo "demo-without-change=$d0 tests-with-change=$t1 demo-with-change=$d1 checks:$verdicts"
