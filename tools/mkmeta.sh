#!/bin/bash
cd /verif
for d in "$@"; do
  pk=$(grep -m1 '^package' seeded/$d/demo_test.go | awk '{print $2}' | sed 's/_test$//'); id=${d%-*}
  out=$(tools/seeded.sh /verif/seeded/$d $id internal/$pk 2>&1)
  python3 - "$d" "$id" "$pk" "$out" <<'PY'
import sys,json,re
d,pid,pk,out=sys.argv[1:5]
det=re.findall(r'obligation="([^"]+)"',out)
first=open('/verif/seeded/%s/agent-README.txt'%d).read().strip().split('\n')
meta={"breaks_property":pid,"source":"independent sub-agent given only the property text and a scratch worktree of /repo (nothing from /verif)",
 "demo_package":"internal/"+pk,
 "confirmed_by":"tools/seeded.sh: "+re.sub(r' checks:.*','',out.strip()),
 "detected":" rc=1" in out or ":rc=1[" in out,
 "detected_by":det[:3],
 "ran":"tools/seeded.sh /verif/seeded/%s %s internal/%s (scratch copy of /repo under /var/tmp, removed afterwards)"%(d,pid,pk)}
json.dump(meta,open('/verif/seeded/%s/meta.json'%d,'w'),indent=1)
print(d, meta["detected"], det[:1])
PY
done
