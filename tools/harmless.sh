#!/bin/bash
# usage: tools/harmless.sh <patch.diff> <property>...
# Applies a behaviour-preserving change to a scratch copy of /repo (under /var/tmp, removed
# afterwards), checks that build + tests stay green, and runs the named properties' quick checks
# against the copy. Expected: rc=0 everywhere (rc=2 CONTRACT-DRIFT = undecided, never rc=1).
here="$(cd "$(dirname "$0")/.." && pwd)"
. "$here/env.sh"
patchf="$1"; shift
scratch=$(mktemp -d /var/tmp/harmless-XXXXXX)
trap 'rm -rf "$scratch"' EXIT
rsync -a --exclude .git /repo/ "$scratch/repo/"
cd "$scratch/repo"
if ! patch -p1 -s < "$patchf"; then echo "patch does not apply"; exit 2; fi
if go build ./... >"$scratch/build.log" 2>&1 && go test -count=1 -vet=off ./internal/... >"$scratch/tests.log" 2>&1; then t1=green; else t1=RED; fi
cd "$here"
verdicts=""
for p in "$@"; do
  out=$(bin/govc check -repo "$scratch/repo" -no-evidence -tier quick "$p" 2>&1); rc=$?
  v=""
  [ $rc -ne 0 ] && v=$(echo "$out" | grep -E "^VIOLATION|ENGINE-ERROR|CONTRACT-DRIFT|UNDECIDED" | head -3 | sed 's/ replay=[^ ]*//' | cut -c1-300 | tr '\n' '|')
  verdicts="$verdicts $p:rc=$rc[$v]"
done
echo "tests=$t1$verdicts"
