# sourced by setup.sh and check: offline Go tool-chain for building govc and loading /repo
export PATH=/root/go/pkg/mod/golang.org/toolchain@v0.0.1-go1.25.5.linux-amd64/bin:$PATH
export GOTOOLCHAIN=local GOFLAGS=-mod=mod GOPROXY=off GOSUMDB=off GONOSUMDB='*' GONOSUMCHECK=1 GOFLAGS=-mod=mod
export CGO_ENABLED=0
