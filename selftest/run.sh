#!/bin/bash
# usage: selftest/run.sh [property ...]   — must-fail corpus: each mutant is applied to a scratch
# copy of /repo (outside /repo and /verif), the property's check must exit 1 and name the
# expected obligation; negative controls must leave the check green. The copy is removed after.
cd "$(dirname "$0")/.."
. ./env.sh
[ -x bin/govc ] || ./setup.sh >/dev/null
want="$*"
fail=0; n=0
scratch=$(mktemp -d /var/tmp/govc-selftest-XXXXXX)
trap 'rm -rf "$scratch"' EXIT
for meta in selftest/mutants/*.json; do
  [ -e "$meta" ] || continue
  prop=$(jq -r .property "$meta"); patch="selftest/mutants/$(jq -r .patch "$meta")"; expect=$(jq -r .expect "$meta"); kind=$(jq -r '.kind // "mutant"' "$meta")
  if [ -n "$want" ] && ! echo " $want " | grep -q " $prop "; then continue; fi
  rm -rf "$scratch/repo"; mkdir -p "$scratch/repo"
  rsync -a --exclude .git /repo/ "$scratch/repo/"
  if ! (cd "$scratch/repo" && patch -p1 -s < "/verif/$patch"); then echo "SELFTEST-ERROR $meta: patch does not apply"; fail=1; continue; fi
  out=$(bin/govc check -repo "$scratch/repo" -no-evidence -tier quick "$prop" 2>&1); rc=$?
  n=$((n+1))
  if [ "$kind" = "drift" ]; then
    # a harmless edit that renames something the contracts mention: the check must say it cannot
    # decide (exit 2, CONTRACT-DRIFT) and must not print a VIOLATION line
    if [ $rc -ne 2 ] || echo "$out" | grep -q '^VIOLATION' || ! echo "$out" | grep -q 'CONTRACT-DRIFT'; then echo "SELFTEST-FAIL $(basename $meta): expected exit 2 with CONTRACT-DRIFT and no VIOLATION, got rc=$rc"; echo "$out" | grep -E 'VIOLATION|ENGINE' | head -5; fail=1; else echo "ok   $(basename $meta) (undecided: contract drift reported, no alarm)"; fi
  elif [ "$kind" = "control" ]; then
    if [ $rc -ne 0 ]; then echo "SELFTEST-FAIL $(basename $meta): negative control raised rc=$rc"; echo "$out" | grep -E 'VIOLATION|ENGINE' | head -5; fail=1; else echo "ok   $(basename $meta) (control stays green)"; fi
  else
    if [ $rc -ne 1 ] || ! echo "$out" | grep VIOLATION | grep -qF -- "$expect"; then echo "SELFTEST-FAIL $(basename $meta): rc=$rc, expected VIOLATION naming '$expect'"; echo "$out" | grep -E 'VIOLATION|ENGINE' | head -5; fail=1; else echo "ok   $(basename $meta) killed by $(echo "$out" | grep VIOLATION | grep -F -- "$expect" | head -1 | sed 's/.*obligation=//' | cut -c1-110)"; fi
  fi
done
echo "selftest: $n cases, fail=$fail"
exit $fail
