#!/bin/bash
# usage: selftest/harmless.sh [id ...]  — the no-false-alarm corpus: behaviour-preserving edits written
# by independent sub-agents (harmless/<id>/patch.diff). Each is applied to a scratch copy of
# /repo (under /var/tmp, removed afterwards); build + tests must stay green and every listed
# property's quick check must exit 0 - or, for the cases marked "undecided" in meta.json, exit 2
# with CONTRACT-DRIFT and no VIOLATION line. Exit 1 from any check is a false alarm.
cd "$(dirname "$0")/.."
fail=0; n=0
for d in harmless/*/; do
  id=$(basename "$d")
  if [ $# -gt 0 ] && ! echo " $* " | grep -q " $id "; then continue; fi
  props=$(jq -r '.properties | join(" ")' "$d/meta.json"); und=$(jq -r '.undecided // [] | join(" ")' "$d/meta.json")
  out=$(tools/harmless.sh "$PWD/$d/patch.diff" $props 2>&1 | tail -1)
  n=$((n+1))
  bad=""
  case "$out" in tests=green*) ;; *) bad="tests not green";; esac
  for p in $props; do
    rc=$(echo "$out" | grep -o "$p:rc=[0-9]" | cut -d= -f2)
    if echo " $und " | grep -q " $p "; then
      [ "$rc" = "0" ] || [ "$rc" = "2" ] || bad="$bad $p:rc=$rc"
    else
      [ "$rc" = "0" ] || bad="$bad $p:rc=$rc"
    fi
  done
  if echo "$out" | grep -q "VIOLATION"; then bad="$bad VIOLATION-line"; fi
  if [ -n "$bad" ]; then echo "HARMLESS-FAIL $id:$bad"; echo "$out" | cut -c1-600; fail=1; else echo "ok   $id ($props)"; fi
done
echo "harmless: $n cases, fail=$fail"
exit $fail
