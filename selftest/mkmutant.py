#!/usr/bin/env python3
"""mkmutant.py NAME PROP EXPECT FILE OLD NEW [OCCURRENCE] [KIND]
Creates selftest/mutants/NAME.{patch,json}: replaces the OCCURRENCE-th (1-based, default 1)
occurrence of OLD by NEW in /repo/FILE (the repo itself is not touched)."""
import sys, json, difflib, os
name, prop, expect, file, old, new = sys.argv[1:7]
occ = int(sys.argv[7]) if len(sys.argv) > 7 else 1
kind = sys.argv[8] if len(sys.argv) > 8 else "mutant"
src = open('/repo/' + file).read()
old = old.encode().decode('unicode_escape'); new = new.encode().decode('unicode_escape')
idx = -1
for _ in range(occ):
    idx = src.find(old, idx + 1)
    if idx < 0:
        sys.exit("OLD text not found (occurrence %d) in %s" % (occ, file))
dst = src[:idx] + new + src[idx + len(old):]
d = difflib.unified_diff(src.splitlines(True), dst.splitlines(True), 'a/' + file, 'b/' + file)
here = os.path.dirname(os.path.abspath(__file__))
open(os.path.join(here, 'mutants', name + '.patch'), 'w').write(''.join(d))
json.dump({"property": prop, "patch": name + ".patch", "expect": expect, "kind": kind}, open(os.path.join(here, 'mutants', name + '.json'), 'w'))
print("wrote", name)
