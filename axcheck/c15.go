package main

import (
	"fmt"
	"os"
	"path/filepath"
	"strings"

	"github.com/Vedant9500/WTF/internal/database"
	"github.com/Vedant9500/WTF/internal/recovery"
)

func init() {
	// C15 / C08 / C10 (bounded): every well-formed list of entries loads - the empty list
	// included - with every entry kept; the merged database is exactly the main entries followed
	// by the notebook entries; and the fallback loader hands out that real database whenever the main file loads and the notebook loads or is merely absent.
	suites["C15-load"] = func() result {
		r := result{Name: "C15-load", Bound: "real LoadDatabase / LoadDatabaseWithPersonal / LoadDatabaseWithFallback on 12 hand-made well-formed lists (empty file, blank lines, [], comment only, ---, entries with empty / blank / missing command, 300 entries) as main file x the same lists and an absent file as notebook"}
		var bad []string
		fail := func(f string, a ...interface{}) {
			if len(bad) < 6 {
				bad = append(bad, fmt.Sprintf(f, a...))
			}
		}
		root, err := os.MkdirTemp("/var/tmp", "c15-")
		if err != nil {
			r.Falsified = []string{"cannot create scratch directory"}
			return r
		}
		defer os.RemoveAll(root)
		type wf struct {
			content string
			cmds    []string
		}
		many := make([]string, 300)
		for i := range many {
			many[i] = fmt.Sprintf("c%d", i)
		}
		lists := []wf{
			{"", nil}, {"\n\n", nil}, {"[]", nil}, {"# only a comment\n", nil}, {"---\n", nil},
			{"- command: ls\n  description: list\n", []string{"ls"}},
			{"- command: ls\n- command: \n  description: only description\n  keywords: [a, b]\n", []string{"ls", ""}},
			{"- command: ''\n  description: ''\n- command: '   '\n- description: no command at all\n", []string{"", "   ", ""}},
			{"- command: c0\n" + func() string {
				var b strings.Builder
				for i := 1; i < 300; i++ {
					fmt.Fprintf(&b, "- command: c%d\n  description: d\n", i)
				}
				return b.String()
			}(), many},
			{"- command: a | b\n  pipeline: false\n- command: a\n  pipeline: true\n", []string{"a | b", "a"}},
			{"- command: ls\n  description: duplicate of the main entry\n- command: ls\n", []string{"ls", "ls"}},
			{"- command: Ls\n- command: ls \n- command: \" ls\"\n", []string{"Ls", "ls", " ls"}},
		}
		same := func(what string, db *database.Database, want []string) {
			if db == nil {
				return
			}
			if len(db.Commands) != len(want) {
				fail("%s: %d entries loaded, the files hold %d", what, len(db.Commands), len(want))
				return
			}
			for i := range want {
				if db.Commands[i].Command != want[i] {
					fail("%s: entry %d is %q, the files have %q there", what, i, db.Commands[i].Command, want[i])
					return
				}
			}
		}
		write := func(name, content string) string {
			p := filepath.Join(root, name)
			os.WriteFile(p, []byte(content), 0o644)
			return p
		}
		for mi, m := range lists {
			mp := write(fmt.Sprintf("main%d.yml", mi), m.content)
			r.Cases++
			db, err := database.LoadDatabase(mp)
			if err != nil || db == nil {
				fail("well-formed list %q does not load: %v", trunc80(m.content), firstLine(err))
				continue
			}
			same(fmt.Sprintf("LoadDatabase(%q)", trunc80(m.content)), db, m.cmds)
			for pi := -1; pi < len(lists); pi++ {
				pp := filepath.Join(root, "absent-notebook.yml")
				want := append([]string(nil), m.cmds...)
				pdesc := "absent"
				if pi >= 0 {
					pp = write(fmt.Sprintf("nb%d_%d.yml", mi, pi), lists[pi].content)
					want = append(want, lists[pi].cmds...)
					pdesc = fmt.Sprintf("%q", trunc80(lists[pi].content))
				}
				r.Cases++
				what := fmt.Sprintf("main %q + notebook %s", trunc80(m.content), pdesc)
				db, err := database.LoadDatabaseWithPersonal(mp, pp)
				if err != nil || db == nil {
					fail("LoadDatabaseWithPersonal %s fails: %v", what, firstLine(err))
				} else {
					same("LoadDatabaseWithPersonal "+what, db, want)
				}
				if mi%3 == 0 || pi < 1 {
					fdb, ferr := recovery.NewDatabaseRecovery(recovery.DefaultRetryConfig()).LoadDatabaseWithFallback(mp, pp)
					if ferr != nil || fdb == nil {
						fail("LoadDatabaseWithFallback %s fails: %v", what, firstLine(ferr))
					} else {
						same("LoadDatabaseWithFallback "+what+" (must be the real database, not a fallback)", fdb, want)
					}
					r.Cases++
				}
				if pi >= 0 {
					os.Remove(pp)
				}
			}
			os.Remove(mp)
		}
		r.Checked = []string{"well-formed lists load with every entry, in order", "merged database = main entries followed by notebook entries", "the fallback loader returns the real database when both files load or the notebook is absent"}
		r.Falsified = bad
		return r
	}
}

func firstLine(err error) string {
	if err == nil {
		return "<nil>"
	}
	s := err.Error()
	if i := strings.IndexByte(s, '\n'); i >= 0 {
		s = s[:i]
	}
	return s
}
