package main

import (
	"fmt"
	"math/rand"
	"sort"
	"strings"
	"time"

	"github.com/Vedant9500/WTF/internal/cache"
)

func init() {
	// C12 (bounded): the real LRUCache against a reference model (a list, most recently used
	// first, plus three counters) over random operation sequences; lifetimes unlimited (0,
	// negative), long (an hour) and already elapsed (a nanosecond, with a pause before the next
	// operation). The proof covers the same statements per operation over the list axioms; this
	// suite is independent of contract drift and gives concrete operation sequences.
	suites["C12-lru-model"] = func() result {
		r := result{Name: "C12-lru-model", Bound: "real LRUCache / SearchCache against a reference model: 600 seeded random sequences of 10..80 put / get / delete / clear / sweep / size / stats / keys calls over 12 keys, capacities -3..7 (non-positive = default 100), lifetimes 0, -1s, 1h and 1ns (elapsed: a 2 ms pause precedes the next call); SearchCache.Put / Get with the caller's slice modified after the call"}
		rng := rand.New(rand.NewSource(12))
		var bad []string
		fail := func(f string, a ...interface{}) {
			if len(bad) < 6 {
				bad = append(bad, fmt.Sprintf(f, a...))
			}
		}
		type kv struct {
			k string
			v int
		}
		for it := 0; it < 600*scale; it++ {
			capArg := rng.Intn(11) - 3
			capEff := capArg
			if capEff <= 0 {
				capEff = 100
			}
			ttl := []time.Duration{0, -time.Second, time.Hour, time.Nanosecond}[it%4]
			if it%4 == 3 && it%24 != 3 {
				ttl = time.Hour // keep the number of pauses small
			}
			elapsed := ttl == time.Nanosecond
			c := cache.NewLRUCache(capArg, ttl)
			var model []kv // most recently used first
			var hits, misses, evictions int64
			var trace []string
			find := func(k string) int {
				for i := range model {
					if model[i].k == k {
						return i
					}
				}
				return -1
			}
			steps := 10 + rng.Intn(70)
			if elapsed {
				steps = 6 + rng.Intn(10)
			}
			for s := 0; s < steps && len(bad) == 0; s++ {
				r.Cases++
				k := fmt.Sprintf("k%d", rng.Intn(12))
				if elapsed {
					time.Sleep(2 * time.Millisecond) // everything stored so far has outlived its nanosecond
				}
				ctx := func() string {
					return fmt.Sprintf("capacity %d lifetime %v after %s", capArg, ttl, strings.Join(trace, " "))
				}
				switch op := rng.Intn(12); {
				case op < 4:
					v := rng.Intn(1000)
					trace = append(trace, fmt.Sprintf("put(%s,%d)", k, v))
					c.Put(k, v)
					if i := find(k); i >= 0 {
						model = append([]kv{{k, v}}, append(model[:i:i], model[i+1:]...)...)
					} else {
						model = append([]kv{{k, v}}, model...)
						if len(model) > capEff {
							model = model[:capEff]
							evictions++
						}
					}
				case op < 8:
					trace = append(trace, fmt.Sprintf("get(%s)", k))
					got, ok := c.Get(k)
					i := find(k)
					switch {
					case i >= 0 && elapsed:
						// stored longer ago than the lifetime: must not be returned
						if ok {
							fail("%s: get returned %v, stored longer ago than the lifetime", ctx(), got)
						}
						model = append(model[:i:i], model[i+1:]...)
						misses++
					case i >= 0:
						if !ok || got != model[i].v {
							fail("%s: get = (%v, %v), the value most recently stored is %d", ctx(), got, ok, model[i].v)
						}
						e := model[i]
						model = append([]kv{e}, append(model[:i:i], model[i+1:]...)...)
						hits++
					default:
						if ok {
							fail("%s: get found %v, the key is not present", ctx(), got)
						}
						misses++
					}
				case op == 8:
					trace = append(trace, fmt.Sprintf("delete(%s)", k))
					got := c.Delete(k)
					i := find(k)
					if got != (i >= 0) {
						fail("%s: delete returned %v, key present: %v", ctx(), got, i >= 0)
					}
					if i >= 0 {
						model = append(model[:i:i], model[i+1:]...)
					}
				case op == 9:
					trace = append(trace, "sweep")
					n := c.CleanupExpired()
					want := 0
					if elapsed {
						want = len(model)
						model = nil
					}
					if n != want {
						fail("%s: the sweep removed %d entries, %d had expired", ctx(), n, want)
					}
				case op == 10 && rng.Intn(3) == 0:
					trace = append(trace, "clear")
					c.Clear()
					model, hits, misses = nil, 0, 0
					// (whether a clear resets the eviction count is not observable from the statement
					// alone: read it back)
					evictions = c.Stats().Evictions
				default:
					trace = append(trace, "stats")
				}
				// observers after every step
				st := c.Stats()
				if c.Size() != len(model) || st.Size != len(model) || len(model) > capEff || c.Capacity() != capEff || st.Capacity != capEff {
					fail("%s: size %d / stats size %d / capacity %d, the model holds %d of %d", ctx(), c.Size(), st.Size, c.Capacity(), len(model), capEff)
				}
				if st.Hits != hits || st.Misses != misses || st.Evictions != evictions {
					fail("%s: stats say hits %d misses %d evictions %d, what happened: %d / %d / %d", ctx(), st.Hits, st.Misses, st.Evictions, hits, misses, evictions)
				}
				keys := c.Keys()
				sort.Strings(keys)
				var mk []string
				for _, e := range model {
					mk = append(mk, e.k)
				}
				sort.Strings(mk)
				if strings.Join(keys, ",") != strings.Join(mk, ",") {
					fail("%s: keys %v, the model holds %v", ctx(), keys, mk)
				}
				if len(trace) > 14 {
					trace = append([]string{"..."}, trace[len(trace)-12:]...)
				}
			}
		}
		// the search cache stores a copy: what the caller does to its slice afterwards is its own business
		for it := 0; it < 200*scale && len(bad) == 0; it++ {
			r.Cases++
			sc := cache.NewSearchCache(rng.Intn(5), time.Hour)
			o := cache.SearchOptions{Limit: 1 + rng.Intn(5)}
			n := 1 + rng.Intn(6)
			mine := make([]cache.SearchResult, n, n+rng.Intn(3))
			for i := range mine {
				mine[i] = cache.SearchResult{Command: fmt.Sprintf("cmd%d", i), Score: float64(100 - i)}
			}
			sc.Put("query", o, mine)
			for i := range mine {
				mine[i] = cache.SearchResult{Command: "overwritten", Score: -1}
			}
			mine = append(mine[:0], cache.SearchResult{Command: "reused buffer", Score: -2})
			got, ok := sc.Get("query", o)
			if !ok || len(got) != n {
				fail("search cache: %d results stored, the lookup returns %d (found %v)", n, len(got), ok)
				continue
			}
			for i := range got {
				if got[i].Command != fmt.Sprintf("cmd%d", i) || got[i].Score != float64(100-i) {
					fail("search cache: result %d of the stored answer reads back as %v after the caller reused its slice", i, got[i])
					break
				}
			}
			if _, ok := sc.Get("query", cache.SearchOptions{Limit: o.Limit + 1}); ok {
				fail("search cache: an answer stored for limit %d is served for limit %d", o.Limit, o.Limit+1)
			}
		}
		r.Falsified = bad
		r.Checked = []string{"never more entries than the capacity; a new key evicts the least recently used entry", "a lookup returns the value most recently stored, never one older than the lifetime", "sweeps remove exactly the expired entries (none when the lifetime is unlimited)", "hits / misses / evictions / size / keys equal what happened since the last clear", "the search cache stores a copy of the caller's slice"}
		return r
	}
}
