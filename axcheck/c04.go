package main

import (
	"fmt"
	"strings"

	"github.com/Vedant9500/WTF/internal/database"
)

func init() {
	// C04 (bounded): the platform families are disjoint. The alias table is the mechanism of the
	// filter and is not re-specified by the contracts (an uninterpreted function there); what the
	// property does fix is the meaning of the well-known names: 'darwin' means macOS,
	// 'powershell' / 'cmd' mean Windows, 'unix' / 'bash' / 'zsh' mean Linux, in any letter case.
	// A command tagged with names of one family only is returned exactly when that family is in
	// force - on the lexical path, the typo fallback and from the cache.
	suites["C04-platform-families"] = func() result {
		r := result{Name: "C04-platform-families", Bound: "real SearchUniversal / cached search on one-command-per-tag databases: 17 well-known platform names in 3 letter cases (and pairs of names of one family) x 3 platforms in force x {lexical, typo fallback, cached} x {cross-platform entries allowed, excluded}"}
		var bad []string
		fail := func(f string, a ...interface{}) {
			if len(bad) < 6 {
				bad = append(bad, fmt.Sprintf(f, a...))
			}
		}
		families := map[string][]string{
			"windows": {"windows", "cmd", "powershell", "windows-cmd", "windows-powershell", "windows10"},
			"macos":   {"macos", "darwin", "macos-13"},
			"linux":   {"linux", "unix", "bash", "zsh", "linux-gnu"},
		}
		order := []string{"windows", "macos", "linux"}
		respell := func(s string, mode int) string {
			switch mode {
			case 1:
				return strings.ToUpper(s)
			case 2:
				return strings.ToUpper(s[:1]) + s[1:]
			}
			return s
		}
		for _, fam := range order {
			names := families[fam]
			var tagSets [][]string
			for _, n := range names {
				for mode := 0; mode < 3; mode++ {
					tagSets = append(tagSets, []string{respell(n, mode)})
				}
			}
			tagSets = append(tagSets, []string{names[0], names[1]}, []string{respell(names[1], 1), names[len(names)-1]})
			for _, tags := range tagSets {
				// "frobnicate" is no recognised cross-platform tool; the entry qualifies through its tags only
				cmds := []database.Command{{Command: "frobnicate --widgets", Description: "frobnicate the widgets thoroughly", Keywords: []string{"frobnicate"}, Platform: tags}}
				for _, inForce := range order {
					for _, noCross := range []bool{false, true} {
						for path, q := range map[string]string{"lexical": "frobnicate widgets", "typo fallback": "frobncate"} {
							o := database.SearchOptions{Limit: 5, Platforms: []string{inForce}, NoCrossPlatform: noCross, UseFuzzy: true}
							db := &database.Database{Commands: append([]database.Command(nil), cmds...)}
							got := len(db.SearchUniversal(q, o)) > 0
							cdb := database.NewCachedDatabase(&database.Database{Commands: append([]database.Command(nil), cmds...)})
							cdb.SearchWithOptionsAndCache(q, o)
							cached := len(cdb.SearchWithOptionsAndCache(q, o)) > 0
							want := inForce == fam
							r.Cases++
							if got != want || cached != want {
								fail("a command tagged %q (%s family) with --platform %s (no-cross-platform=%v), %s path: returned %v (from the cache: %v), expected %v", tags, fam, inForce, noCross, path, got, cached, want)
							}
						}
					}
				}
			}
		}
		r.Checked = []string{"well-known platform names select exactly their own family, in any letter case, on the lexical, fallback and cached paths"}
		r.Falsified = bad
		return r
	}
}
