package main

import (
	"fmt"
	"os"
	"path/filepath"
	"strings"

	"github.com/Vedant9500/WTF/internal/cli"
)

func init() {
	// C20 (bounded), command-line clause: two command lines whose queries differ only in letter
	// case or in leading, trailing or repeated whitespace print the same results. The root
	// command is executed as main executes it (guarded hook VerifRunRoot), its standard output
	// captured; the line that echoes the query as typed is left out of the comparison.
	suites["C20-cli"] = func() result {
		r := result{Name: "C20-cli", Bound: "real root command (cobra Execute) on a 9-command database under a scratch HOME: 14 base queries (indexed words, misspellings answered by the typo fallback, name fragments answered only by the recovery searches, unknown words) x 9 re-spellings (upper / title case, leading / trailing / repeated blanks, tabs, newlines) x {default, --limit 2, --platform linux}; standard output compared line by line"}
		var bad []string
		fail := func(f string, a ...interface{}) {
			if len(bad) < 5 {
				bad = append(bad, fmt.Sprintf(f, a...))
			}
		}
		root, err := os.MkdirTemp("/var/tmp", "c20cli-")
		if err != nil {
			r.Falsified = []string{"cannot create scratch directory"}
			return r
		}
		defer os.RemoveAll(root)
		oldHome, oldNC := os.Getenv("HOME"), os.Getenv("NO_COLOR")
		os.Setenv("HOME", root)
		os.Setenv("NO_COLOR", "1")
		defer func() { os.Setenv("HOME", oldHome); os.Setenv("NO_COLOR", oldNC) }()
		db := filepath.Join(root, "commands.yml")
		os.WriteFile(db, []byte(`
- command: "systemctl restart nginx"
  description: "Restart the nginx web server unit on a machine that is managed by systemd and wait until the unit is active again"
  keywords: ["service", "restart", "nginx"]
- command: "journalctl -u nginx --since today"
  description: "Show the log lines that the nginx unit wrote to the systemd journal since midnight of the current day, oldest first"
  keywords: ["logs", "journal", "nginx"]
- command: "service nginx restart"
  description: "Legacy SysV style alternative to systemctl for restarting the nginx web server on distributions without systemd units"
  keywords: ["sysv", "init", "nginx"]
- command: "tar -czf backup.tar.gz /etc/nginx"
  description: "Create a gzip compressed tar archive of the nginx configuration directory so that it can be restored later on"
  keywords: ["archive", "compress", "backup"]
- command: "git commit -m msg"
  description: "Commit staged changes"
  keywords: ["git", "commit", "save"]
- command: "docker ps -a"
  description: "List all containers"
  keywords: ["docker", "containers", "list"]
  platform: ["linux", "macos"]
- command: "kubectl get pods"
  description: "List the pods of the current namespace"
  keywords: ["kubernetes", "pods"]
- command: "dir /s"
  description: "List files recursively"
  keywords: ["list", "files"]
  platform: ["windows"]
- command: "ls -la | grep conf"
  description: "List configuration files"
  keywords: ["list", "files", "filter"]
  pipeline: true
`), 0o600)
		realStdout := os.Stdout
		defer func() { os.Stdout = realStdout }()
		run := func(q string, extra []string) string {
			tmp, err := os.CreateTemp(root, "out")
			if err != nil {
				return "cannot capture"
			}
			os.Stdout = tmp
			args := append([]string{"--database", db, "--no-color=true", "--format", "list", "--verbose=false", "--all-platforms=false", "--no-cross-platform=false"}, extra...)
			func() {
				defer func() {
					os.Stdout = realStdout
					if rec := recover(); rec != nil {
						fmt.Fprintf(tmp, "PANIC: %v\n", rec)
					}
				}()
				cli.VerifRunRoot(append(args, "--", q))
			}()
			tmp.Close()
			b, _ := os.ReadFile(tmp.Name())
			os.Remove(tmp.Name())
			var kept []string
			for _, l := range strings.Split(string(b), "\n") {
				if strings.HasPrefix(l, "Searching for: ") || strings.HasPrefix(l, "🔍") {
					continue // the echo of the query as typed
				}
				if i := strings.Index(l, "No commands found matching"); i >= 0 {
					l = l[:i] + "No commands found matching <query as typed>"
				}
				kept = append(kept, l)
			}
			return strings.Join(kept, "\n")
		}
		queries := []string{"restart nginx", "git commit", "list files", "compress archive backup", "docker containers", "gti comit", "kubctl pods", "jurnalctl", "ctl", "nginx", "conf", "zzzz qqqq", "how do i list all containers", "pods"}
		respell := []func(string) string{
			strings.ToUpper,
			func(s string) string { return strings.ToUpper(s[:1]) + s[1:] },
			func(s string) string { return " " + s },
			func(s string) string { return s + "  " },
			func(s string) string { return "  " + s + " " },
			func(s string) string { return "\t" + s + "\n" },
			func(s string) string { return strings.ReplaceAll(s, " ", "   ") },
			func(s string) string { return " " + strings.ToUpper(s[:1]) + s[1:] + " " },
			func(s string) string { return strings.ReplaceAll(s, " ", " \t ") + "\n" },
		}
		flagSets := [][]string{{"--limit", "0"}, {"--limit", "2"}, {"--limit", "0", "--platform", "linux"}}
		for _, q := range queries {
			for fi, fl := range flagSets {
				want := run(q, fl)
				if strings.Contains(want, "PANIC:") {
					fail("query %q %v: %s", q, fl, firstNonEmptyLine(want))
					continue
				}
				for ri, f := range respell {
					q2 := f(q)
					if q2 == q {
						continue
					}
					r.Cases++
					if got := run(q2, fl); got != want {
						fail("`wtf %v %q` prints something else than `wtf %v %q` (re-spelling #%d, flags #%d): %q versus %q", fl, q2, fl, q, ri, fi, summary(got), summary(want))
					}
				}
			}
		}
		// restore the flag defaults for whoever runs next in this process
		run("nginx", []string{"--limit", "0", "--platform", ""})
		r.Checked = []string{"case and whitespace re-spellings of one query print the same results through the real command line, whichever stage answers (index, typo fallback, recovery searches)"}
		r.Falsified = bad
		return r
	}
}

func firstNonEmptyLine(s string) string {
	for _, l := range strings.Split(s, "\n") {
		if strings.TrimSpace(l) != "" {
			return l
		}
	}
	return ""
}

// summary: the non-empty lines of an output that carry a warning, a count or a command.
func summary(s string) string {
	var keep []string
	for _, l := range strings.Split(s, "\n") {
		t := strings.TrimSpace(l)
		if strings.HasPrefix(t, "Warning") || strings.HasPrefix(t, "Found") || strings.HasPrefix(t, "No ") || (len(t) > 2 && t[1] == '.' && t[0] >= '1' && t[0] <= '9') {
			if len(t) > 70 {
				t = t[:70]
			}
			keep = append(keep, t)
		}
	}
	if len(keep) > 5 {
		keep = keep[:5]
	}
	return strings.Join(keep, " / ")
}
