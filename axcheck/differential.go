package main

// Bounded differential suites on the real code for the relational clauses of C06, C07 and C13
// (two executions compared). They complement the contracts: when a function under contract is
// restructured so far that its contract no longer resolves (contract drift, verdict "undecided"),
// these still decide the property on the inputs they explore, with a concrete failing input.

import (
	"fmt"
	"math"
	"math/rand"
	"os"
	"path/filepath"
	"sort"
	"strings"

	wtfctx "github.com/Vedant9500/WTF/internal/context"
	"github.com/Vedant9500/WTF/internal/database"
	"github.com/Vedant9500/WTF/internal/nlp"
	"github.com/sahilm/fuzzy"
)

var diffWords = []string{"compress", "archive", "directory", "folder", "git", "commit", "list", "files", "file", "find", "search", "text", "docker", "run", "build", "image", "download", "network", "disk", "usage", "show", "view", "delete", "remove", "create", "install", "copy", "move", "process", "kill", "the", "how", "to", "a", "zeta", "eta", "theta", "iota", "kappa", "common", "widget", "gadget", "alpha", "beta", "status", "branch", "merge", "container", "port", "logs"}

func diffDB(rng *rand.Rand, n int) *database.Database {
	mkText := func(max int) string {
		k := 1 + rng.Intn(max)
		var ws []string
		for i := 0; i < k; i++ {
			ws = append(ws, diffWords[rng.Intn(len(diffWords))])
		}
		return strings.Join(ws, " ")
	}
	db := &database.Database{}
	for i := 0; i < n; i++ {
		c := database.Command{Command: fmt.Sprintf("cmd%02d %s", i, mkText(3)), Description: mkText(7)}
		for j := rng.Intn(4); j > 0; j-- {
			c.Keywords = append(c.Keywords, diffWords[rng.Intn(len(diffWords))])
		}
		if rng.Intn(3) == 0 {
			c.Tags = []string{diffWords[rng.Intn(len(diffWords))]}
		}
		if rng.Intn(2) == 0 {
			c.CommandLower, c.DescriptionLower = strings.ToLower(c.Command), strings.ToLower(c.Description)
			c.KeywordsLower = append([]string(nil), c.Keywords...)
			c.TagsLower = append([]string(nil), c.Tags...)
		}
		db.Commands = append(db.Commands, c)
	}
	db.BuildUniversalIndex()
	return db
}

func diffQuery(rng *rand.Rand, maxWords int) string {
	k := 1 + rng.Intn(maxWords)
	var ws []string
	for i := 0; i < k; i++ {
		ws = append(ws, diffWords[rng.Intn(len(diffWords))])
	}
	return strings.Join(ws, " ")
}

func resultSet(rs []database.SearchResult) map[*database.Command]float64 {
	m := map[*database.Command]float64{}
	for _, r := range rs {
		m[r.Command] = r.Score
	}
	return m
}

func init() {
	suites["C06-superset"] = func() result {
		r := result{Name: "C06-superset", Bound: "real SearchUniversal on 300 seeded random databases of 4..40 commands over a 50-word vocabulary (action / target / stop / plain words), 12 queries each of 1..12 words, limit > database size: enhancement on versus off; ProcessQuery / GetEnhancedKeywords on 3,000 queries"}
		rng := rand.New(rand.NewSource(6))
		stop := nlp.StopWords()
		var bad []string
		fail := func(f string, a ...interface{}) {
			if len(bad) < 5 {
				bad = append(bad, fmt.Sprintf(f, a...))
			}
		}
		for it := 0; it < 300*scale; it++ {
			db := diffDB(rng, 4+rng.Intn(37))
			for qi := 0; qi < 12; qi++ {
				q := diffQuery(rng, 12)
				toks := refTokens(q, stop)
				off := resultSet(db.SearchUniversal(q, database.SearchOptions{Limit: len(db.Commands) + 5, AllPlatforms: true}))
				on := resultSet(db.SearchUniversal(q, database.SearchOptions{Limit: len(db.Commands) + 5, AllPlatforms: true, UseNLP: true}))
				r.Cases++
				if len(toks) <= 10 {
					for c := range off {
						if _, ok := on[c]; !ok {
							fail("query %q (%d content words): %q is returned with enhancement off but lost with it on", q, len(toks), c.Command)
							break
						}
					}
				}
				// each of the first four content words is retained: whatever they hit is a candidate
				first := toks
				if len(first) > 4 {
					first = first[:4]
				}
				for i, sc := range refSearch(db, first, nil, stop) {
					_ = sc
					if _, ok := on[&db.Commands[i]]; !ok {
						fail("query %q: command %q hit by one of the first four words is missing with enhancement on", q, db.Commands[i].Command)
						break
					}
				}
			}
		}
		proc := nlp.NewQueryProcessor()
		for it := 0; it < 3000*scale; it++ {
			q := diffQuery(rng, 8)
			if it%7 == 0 {
				q = strings.ToUpper(q[:1]) + q[1:] + "?"
			}
			pa, pb := proc.ProcessQuery(q), nlp.NewQueryProcessor().ProcessQuery(q)
			r.Cases++
			ea, eb := pa.GetEnhancedKeywords(), pb.GetEnhancedKeywords()
			if strings.Join(ea, "\x00") != strings.Join(eb, "\x00") || strings.Join(pa.Keywords, "\x00") != strings.Join(pb.Keywords, "\x00") || strings.Join(pa.Actions, "\x00") != strings.Join(pb.Actions, "\x00") || pa.Intent != pb.Intent {
				fail("analysing %q twice gives two analyses", q)
			}
			seen := map[string]bool{}
			for _, w := range ea {
				if seen[w] {
					fail("GetEnhancedKeywords(%q) = %q contains %q twice", q, ea, w)
					break
				}
				seen[w] = true
			}
			if len(ea) < len(pa.Keywords) || strings.Join(ea[:len(pa.Keywords)], "\x00") != strings.Join(pa.Keywords, "\x00") {
				fail("GetEnhancedKeywords(%q) = %q does not begin with the keywords %q", q, ea, pa.Keywords)
			}
		}
		r.Falsified = bad
		r.Checked = []string{"results(off) subset of results(on) for <= 10 content words", "hits of the first four content words retained", "analysis deterministic", "expanded list duplicate-free and keywords first"}
		return r
	}

	suites["C13-boosts"] = func() result {
		r := result{Name: "C13-boosts", Bound: "real SearchUniversal on 250 seeded random databases x 10 queries x 4 boost maps (1..3 words, factors 1, 1.3, 1.5, 2, 2.5), NLP on and off, limit > database size: with versus without boosts; real AnalyzeDirectory / GetContextBoosts on 400 generated directories (subsets of 30 marker files, odd package.json / Makefile text) and on a missing directory"}
		rng := rand.New(rand.NewSource(13))
		stop := nlp.StopWords()
		var bad []string
		fail := func(f string, a ...interface{}) {
			if len(bad) < 5 {
				bad = append(bad, fmt.Sprintf(f, a...))
			}
		}
		factors := []float64{1, 1.3, 1.5, 2, 2.5}
		for it := 0; it < 250*scale; it++ {
			db := diffDB(rng, 4+rng.Intn(30))
			for qi := 0; qi < 10; qi++ {
				q := diffQuery(rng, 6)
				toks := refTokens(q, stop)
				if len(toks) == 0 {
					continue
				}
				for bi := 0; bi < 4; bi++ {
					boosts := map[string]float64{}
					for k := 1 + rng.Intn(3); k > 0; k-- {
						w := toks[rng.Intn(len(toks))]
						if rng.Intn(4) == 0 {
							w = diffWords[rng.Intn(len(diffWords))]
						}
						boosts[w] = factors[rng.Intn(len(factors))]
					}
					for _, useNLP := range []bool{false, true} {
						base := db.SearchUniversal(q, database.SearchOptions{Limit: len(db.Commands) + 5, AllPlatforms: true, UseNLP: useNLP})
						with := db.SearchUniversal(q, database.SearchOptions{Limit: len(db.Commands) + 5, AllPlatforms: true, UseNLP: useNLP, ContextBoosts: boosts})
						r.Cases++
						a, b := resultSet(base), resultSet(with)
						if len(a) != len(b) {
							fail("query %q boosts %v nlp=%v: %d candidates without boosts, %d with", q, boosts, useNLP, len(a), len(b))
							continue
						}
						for c, s0 := range a {
							s1, ok := b[c]
							if !ok {
								fail("query %q boosts %v nlp=%v: %q is a candidate only without boosts", q, boosts, useNLP, c.Command)
								break
							}
							// does the command contain a boosted word (in any indexed field)?
							has := false
							d := refIndexDoc(c, stop)
							for w := range boosts {
								for f := 0; f < 4; f++ {
									if d.tf[f][w] > 0 {
										has = true
									}
								}
							}
							tol := 1e-9 * math.Max(1, math.Abs(s0))
							if has && s1 < s0-tol {
								fail("query %q boosts %v nlp=%v: score of %q, which contains a boosted word, LOWERED %v -> %v", q, boosts, useNLP, c.Command, s0, s1)
								break
							}
							if !has && !useNLP && math.Abs(s1-s0) > tol {
								fail("query %q boosts %v: score of %q, which contains no boosted word, changed %v -> %v", q, boosts, c.Command, s0, s1)
								break
							}
						}
					}
				}
			}
		}
		// directory analysis
		markers := []string{".git", "Dockerfile", "docker-compose.yml", "docker-compose.yaml", "package.json", "node_modules", "yarn.lock", "webpack.config.js", "vite.config.ts", "requirements.txt", "setup.py", "Pipfile", "go.mod", "go.sum", "Cargo.toml", "Cargo.lock", "pom.xml", "build.gradle", "app.csproj", "global.json", "Gemfile", "Rakefile", "composer.json", "CMakeLists.txt", "Makefile", "makefile", "k8s-deploy.yaml", "kustomization.yaml", "main.tf", "ansible.cfg", "site-playbook.yml", "README.md", "notes.txt"}
		contents := map[string][]string{
			"package.json": {`{"scripts":{"build":"x","test":"y"}}`, `{"scripts":null}`, `not json`, `{"scripts":{"":"z","a b":"c"}}`, ``},
			"Makefile":     {"all: build\n\nbuild:\n\tgo build\n.PHONY: all\nX = 1\n", "# only a comment\n", "a:b:c\n  indented: x\n", ""},
			"makefile":     {"test:\n\techo\n"},
		}
		root, err := os.MkdirTemp("/var/tmp", "c13dirs-")
		if err == nil {
			defer os.RemoveAll(root)
			an := wtfctx.NewAnalyzer()
			for it := 0; it < 400*scale; it++ {
				dir := filepath.Join(root, fmt.Sprintf("d%d", it))
				os.MkdirAll(dir, 0o755)
				n := rng.Intn(7)
				if it%10 == 0 {
					n = 0
				}
				var present []string
				for k := 0; k < n; k++ {
					m := markers[rng.Intn(len(markers))]
					body := "x"
					if cs, ok := contents[m]; ok {
						body = cs[rng.Intn(len(cs))]
					}
					if m == ".git" || m == "node_modules" {
						os.MkdirAll(filepath.Join(dir, m), 0o755)
					} else {
						os.WriteFile(filepath.Join(dir, m), []byte(body), 0o644)
					}
					present = append(present, m)
				}
				sort.Strings(present)
				c1, e1 := an.AnalyzeDirectory(dir)
				c2, e2 := wtfctx.NewAnalyzer().AnalyzeDirectory(dir)
				r.Cases++
				if e1 != nil || e2 != nil || c1 == nil || c2 == nil {
					fail("AnalyzeDirectory(%v) failed: %v %v", present, e1, e2)
					continue
				}
				if fmt.Sprint(c1.ProjectTypes, c1.Language, c1.BuildSystem, c1.MakeTargets, len(c1.PackageScripts)) != fmt.Sprint(c2.ProjectTypes, c2.Language, c2.BuildSystem, c2.MakeTargets, len(c2.PackageScripts)) {
					fail("AnalyzeDirectory(%v) twice: %v vs %v", present, c1.ProjectTypes, c2.ProjectTypes)
				}
				seen := map[wtfctx.ProjectType]bool{}
				for _, t := range c1.ProjectTypes {
					if seen[t] {
						fail("directory %v: project type %q reported twice in %v", present, t, c1.ProjectTypes)
					}
					seen[t] = true
				}
				if len(c1.ProjectTypes) == 0 || (seen[wtfctx.ProjectTypeGeneric] && len(c1.ProjectTypes) != 1) {
					fail("directory %v: types %v ('generic' must be reported exactly when nothing else is)", present, c1.ProjectTypes)
				}
				recognised := false
				for _, m := range present {
					if m != "README.md" && m != "notes.txt" {
						recognised = true
					}
				}
				if !recognised && !seen[wtfctx.ProjectTypeGeneric] {
					fail("directory %v: nothing to recognise but types = %v", present, c1.ProjectTypes)
				}
				for w, f := range c1.GetContextBoosts() {
					if !(f >= 1) || math.IsInf(f, 0) {
						fail("directory %v: boost %q = %v", present, w, f)
					}
				}
			}
			if c, err := an.AnalyzeDirectory(filepath.Join(root, "missing")); err != nil || c == nil || len(c.ProjectTypes) != 1 || c.ProjectTypes[0] != wtfctx.ProjectTypeGeneric {
				fail("missing directory: %v %v", c, err)
			}
		}
		r.Falsified = bad
		r.Checked = []string{"same candidate set with and without boosts", "a command containing a boosted word never scores lower", "a command containing none keeps its score (NLP off)", "directory analysis: deterministic, each type once, generic iff alone, boosts >= 1"}
		return r
	}

	suites["C07-fallback"] = func() result {
		r := result{Name: "C07-fallback", Bound: "real SearchUniversal on 300 seeded random databases x 12 queries (plain, misspelt, action words, unknown words) x thresholds {0, -30, -150, -400, 40}, NLP on and off: typo tolerance on versus off, and fallback results (membership, threshold, best-first order) against an independent fuzzy.Find score"}
		rng := rand.New(rand.NewSource(7))
		var bad []string
		fail := func(f string, a ...interface{}) {
			if len(bad) < 5 {
				bad = append(bad, fmt.Sprintf(f, a...))
			}
		}
		misspell := func(w string) string {
			if len(w) < 4 {
				return w + "x"
			}
			i := 1 + rng.Intn(len(w)-2)
			return w[:i] + w[i+1:]
		}
		thresholds := []int{0, -30, -150, -400, 40}
		for it := 0; it < 300*scale; it++ {
			db := diffDB(rng, 4+rng.Intn(30))
			if it%5 == 0 {
				// a long description gives very negative fuzzy scores
				db.Commands[0].Description = strings.Repeat("lorem ipsum dolor sit amet ", 10) + db.Commands[0].Description
				db.Commands[0].DescriptionLower = ""
				db.BuildUniversalIndex()
			}
			for qi := 0; qi < 12; qi++ {
				q := diffQuery(rng, 3)
				switch qi % 4 {
				case 1:
					q = misspell(strings.Fields(q)[0])
				case 2:
					q = []string{"folder", "destroy", "erase", "locate", "obtain"}[rng.Intn(5)]
				case 3:
					q = misspell(misspell(diffWords[rng.Intn(len(diffWords))]))
				}
				for _, th := range thresholds {
					for _, useNLP := range []bool{false, true} {
						lim := 3 + rng.Intn(len(db.Commands))
						off := db.SearchUniversal(q, database.SearchOptions{Limit: lim, AllPlatforms: true, UseNLP: useNLP})
						on := db.SearchUniversal(q, database.SearchOptions{Limit: lim, AllPlatforms: true, UseNLP: useNLP, UseFuzzy: true, FuzzyThreshold: th})
						r.Cases++
						if len(off) > 0 {
							if d := sameResults(off, on); d != "" {
								fail("query %q nlp=%v threshold %d: the search has answers without typo tolerance, but turning it on changes them (%s)", q, useNLP, th, d)
							}
							continue
						}
						// answered by the fallback only: every result is a genuine fuzzy match of at least the threshold
						var targets []string
						for i := range db.Commands {
							targets = append(targets, db.Commands[i].Command+" "+db.Commands[i].Description)
						}
						ref := map[int]int{}
						for _, m := range fuzzy.Find(strings.TrimSpace(q), targets) {
							ref[m.Index] = m.Score
						}
						prevSc, prevCmd := 0, ""
						for ri, res := range on {
							idx := -1
							for i := range db.Commands {
								if &db.Commands[i] == res.Command {
									idx = i
								}
							}
							sc, ok := ref[idx]
							if !ok {
								fail("query %q threshold %d: fallback result %q is not a fuzzy match of the query", q, th, res.Command.Command)
							} else if th != 0 && sc < th {
								fail("query %q threshold %d: fallback result %q has match quality %d", q, th, res.Command.Command, sc)
							}
							// best match first: by the matcher's own quality, not by the displayed (clamped) score
							if ok && ri > 0 && sc > prevSc {
								fail("query %q threshold %d nlp=%v: fallback result %q (match quality %d) is listed after %q (match quality %d)", q, th, useNLP, res.Command.Command, sc, prevCmd, prevSc)
							}
							if ok {
								prevSc, prevCmd = sc, res.Command.Command
							}
						}
					}
				}
			}
		}
		// never left without a result: some eligible command contains the query's characters in
		// order, no threshold, nothing matches lexically => the fallback answers. Commands of another
		// platform (ineligible) may match better and come first.
		host := "linux"
		if probe := (&database.Database{Commands: []database.Command{{Command: "zzprobe", Description: "zzprobe", Platform: []string{"linux"}}}}); len(probe.SearchUniversal("zzprobe", database.SearchOptions{Limit: 1, NoCrossPlatform: true})) == 0 {
			host = "" // not a linux host: skip the platform-dependent part
		}
		for it := 0; host != "" && it < 200*scale; it++ {
			db := &database.Database{}
			nOther := 1 + rng.Intn(25)
			w := diffWords[rng.Intn(len(diffWords))]
			for len(w) < 5 {
				w = diffWords[rng.Intn(len(diffWords))]
			}
			typo := w[:2] + w[3:]
			for i := 0; i < nOther; i++ {
				db.Commands = append(db.Commands, database.Command{Command: fmt.Sprintf("%s%d", typo, i), Description: "other platform", Platform: []string{"windows"}})
			}
			db.Commands = append(db.Commands, database.Command{Command: "x " + w + " tool for this host", Description: "long text " + strings.Repeat("pad ", rng.Intn(6)), Platform: []string{host}})
			rng.Shuffle(len(db.Commands), func(i, j int) { db.Commands[i], db.Commands[j] = db.Commands[j], db.Commands[i] })
			db.BuildUniversalIndex()
			lim := 1 + rng.Intn(4)
			res := db.SearchUniversal(typo, database.SearchOptions{Limit: lim, UseFuzzy: true, NoCrossPlatform: true})
			r.Cases++
			if len(res) == 0 {
				fail("query %q, limit %d, %d better matches for another platform: an eligible command contains the query's characters in order but the fallback returned nothing", typo, lim, nOther)
			}
			for _, x := range res {
				if len(x.Command.Platform) == 1 && x.Command.Platform[0] == "windows" {
					fail("query %q: fallback returned a command for another platform", typo)
				}
			}
		}
		r.Falsified = bad
		r.Checked = []string{"typo tolerance never changes an answer that exists without it", "fallback results are genuine matches of quality >= threshold", "an eligible subsequence match is never left without a result (no threshold), even behind better matches that are filtered out"}
		return r
	}
}
