package main

import (
	"container/list"
	"fmt"
)

func init() {
	// The assumed ghost-model contracts of container/list (length, element at each position,
	// position and owner of each element) against the real package: every sequence of <= 6
	// operations drawn from PushFront / MoveToFront(e) / Remove(e) / Init over the elements
	// created so far (also elements already removed, and elements of a second list).
	suites["C12-list-contracts"] = func() result {
		r := result{Name: "C12-list-contracts", Bound: "real container/list: all operation sequences of length <= 6 over PushFront, MoveToFront(e), Remove(e), Init with e ranging over every element created so far (including removed ones and one element of another list); after each step the real list is compared with the sequence the contracts prescribe, and Len/Front/Back/Prev with their contracts"}
		var bad []string
		type op struct {
			kind string
			idx  int
		}
		var rec func(ops []op)
		check := func(ops []op) {
			l := list.New()
			other := list.New()
			foreign := other.PushFront("foreign")
			var elems []*list.Element // every element ever created in l
			model := []*list.Element{}
			owner := map[*list.Element]bool{}
			stale := map[*list.Element]bool{}
			fail := func(msg string) {
				if len(bad) < 3 {
					bad = append(bad, fmt.Sprintf("%s after %v", msg, ops))
				}
			}
			for _, o := range ops {
				switch o.kind {
				case "push":
					e := l.PushFront(len(elems))
					if e == nil || e.Value != len(elems) {
						fail("PushFront result")
					}
					elems = append(elems, e)
					model = append([]*list.Element{e}, model...)
					owner[e] = true
				case "move", "remove":
					var e *list.Element
					if o.idx == len(elems) {
						e = foreign
					} else {
						e = elems[o.idx]
					}
					if stale[e] {
						return // precondition !lstale(e) of the contracts: sequence not admitted
					}
					if o.kind == "move" {
						l.MoveToFront(e)
						if owner[e] {
							nm := []*list.Element{e}
							for _, x := range model {
								if x != e {
									nm = append(nm, x)
								}
							}
							model = nm
						}
					} else {
						v := l.Remove(e)
						if v != e.Value {
							fail("Remove result")
						}
						if owner[e] {
							nm := []*list.Element{}
							for _, x := range model {
								if x != e {
									nm = append(nm, x)
								}
							}
							model = nm
							owner[e] = false
						}
					}
				case "init":
					if l.Init() != l {
						fail("Init result")
					}
					model = nil
					for k := range owner {
						if owner[k] {
							stale[k] = true
						}
						owner[k] = false
					}
				}
				// compare
				if l.Len() != len(model) {
					fail("Len")
				}
				i := 0
				for e := l.Front(); e != nil; e = e.Next() {
					if i >= len(model) || model[i] != e {
						fail("order")
						break
					}
					i++
				}
				if len(model) == 0 {
					if l.Front() != nil || l.Back() != nil {
						fail("Front/Back on empty")
					}
				} else {
					if l.Front() != model[0] || l.Back() != model[len(model)-1] {
						fail("Front/Back")
					}
					for j, e := range model {
						want := (*list.Element)(nil)
						if j > 0 {
							want = model[j-1]
						}
						if e.Prev() != want {
							fail("Prev")
						}
					}
				}
				for _, e := range elems {
					if !owner[e] && !stale[e] && e.Prev() != nil {
						fail("Prev of removed element")
					}
				}
				if other.Len() != 1 || other.Front() != foreign {
					fail("other list disturbed")
				}
			}
			r.Cases++
		}
		rec = func(ops []op) {
			check(ops)
			if len(ops) == 6 {
				return
			}
			n := 0
			for _, o := range ops {
				if o.kind == "push" {
					n++
				}
			}
			if n < 3 {
				rec(append(append([]op(nil), ops...), op{"push", 0}))
			}
			for i := 0; i <= n; i++ {
				if i == n && n == 0 {
					// foreign element only
				}
				rec(append(append([]op(nil), ops...), op{"move", i}))
				rec(append(append([]op(nil), ops...), op{"remove", i}))
			}
			rec(append(append([]op(nil), ops...), op{"init", 0}))
		}
		rec(nil)
		r.Checked = []string{"PushFront", "MoveToFront", "Remove", "Init", "Len", "Front", "Back", "Prev"}
		r.Falsified = bad
		return r
	}
}
