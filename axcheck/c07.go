package main

import (
	"fmt"
	"strings"
	"unicode"

	"github.com/sahilm/fuzzy"
)

func foldSubseq(pattern, target string) bool {
	pr := []rune(pattern)
	k := 0
	for _, c := range target {
		if k < len(pr) && (c == pr[k] || unicode.ToLower(c) == unicode.ToLower(pr[k]) || unicode.SimpleFold(c) == pr[k] || unicode.SimpleFold(pr[k]) == c) {
			k++
		}
	}
	return k == len(pr)
}

func init() {
	// The ASSUMED functional contract of github.com/sahilm/fuzzy.Find, and its safety on NUL-free
	// targets (its internals are not under contract): bounded validation against the real matcher.
	suites["C07-fuzzy-contract"] = func() result {
		r := result{Name: "C07-fuzzy-contract", Bound: "real fuzzy.Find: all patterns of 1..3 symbols and all lists of 1..2 targets of 0..4 symbols over {a, A, b, -, ' ', é}; plus targets containing NUL after the repository's sanitisation (NUL -> space)"}
		alpha := []string{"a", "A", "b", "-", " ", "é"}
		var pats, tgts []string
		enumStrings(alpha, 3, func(s string) {
			if s != "" {
				pats = append(pats, s)
			}
		})
		enumStrings(alpha, 4, func(s string) { tgts = append(tgts, s) })
		bad := map[string]string{}
		check := func(p string, data []string) {
			defer func() {
				if rec := recover(); rec != nil {
					bad["no-panic"] = fmt.Sprintf("no-panic falsified by pattern %q data %q: %v", p, data, rec)
				}
			}()
			ms := fuzzy.Find(p, data)
			r.Cases++
			seen := map[int]bool{}
			for k, m := range ms {
				if m.Index < 0 || m.Index >= len(data) {
					bad["index-range"] = fmt.Sprintf("index-range falsified by %q %q", p, data)
				}
				if seen[m.Index] {
					bad["distinct"] = fmt.Sprintf("distinct falsified by %q %q", p, data)
				}
				seen[m.Index] = true
				if k > 0 && ms[k-1].Score < m.Score {
					bad["sorted"] = fmt.Sprintf("sorted falsified by %q %q", p, data)
				}
				if m.Index >= 0 && m.Index < len(data) && !foldSubseq(p, data[m.Index]) {
					bad["genuine-match"] = fmt.Sprintf("genuine-match falsified by %q %q", p, data)
				}
			}
			for i, t := range data {
				if foldSubseq(p, t) && !seen[i] {
					bad["complete"] = fmt.Sprintf("complete falsified by %q %q (target %d)", p, data, i)
				}
			}
		}
		for _, p := range pats {
			for i, t1 := range tgts {
				check(p, []string{t1})
				if i%7 == 0 {
					for j := 0; j < len(tgts); j += 11 {
						check(p, []string{t1, tgts[j]})
					}
				}
			}
		}
		// NUL-bearing command texts, sanitised as fuzzyFind does
		for _, p := range []string{"ab", "a", "b", "ba"} {
			for _, t := range []string{"xab\x00c", "\x00", "a\x00b", "ab\x00", "\x00ab", "a\x00\x00b"} {
				check(p, []string{strings.ReplaceAll(t, "\x00", " ")})
			}
		}
		r.Checked = []string{"no-panic", "index-range", "distinct", "sorted", "genuine-match", "complete"}
		for _, m := range bad {
			r.Falsified = append(r.Falsified, m)
		}
		return r
	}
}
