package main

import (
	"fmt"
	"math/rand"
	"os"
	"path/filepath"
	"strings"

	"github.com/Vedant9500/WTF/internal/cli"
	"github.com/Vedant9500/WTF/internal/config"
	"github.com/Vedant9500/WTF/internal/database"
)

func init() {
	// C08 (bounded): the command-line surface. The Run functions of `wtf save` and
	// `wtf save-pipeline` are executed as cobra would execute them (arguments and flag values in
	// place), against a notebook under a scratch HOME; what they report as saved must be what the
	// notebook then holds.
	suites["C08-cli-save"] = func() result {
		r := result{Name: "C08-cli-save", Bound: "real Run functions of `wtf save` / `wtf save-pipeline` under a scratch HOME: 150 seeded sequences of 1..6 saves, arguments and flag values from 30 shell-passable strings ('|' inside quotes, leading '-', ': ', '#', '{{...}}', 'null', 'true', multi-line, Unicode, empty), repeated command strings; the notebook re-loaded after every save"}
		var bad []string
		fail := func(f string, a ...interface{}) {
			if len(bad) < 6 {
				bad = append(bad, fmt.Sprintf(f, a...))
			}
		}
		vals := []string{"ls -la", "grep -E 'error|warn' app.log", "echo '||'", "cat f | wc -l", "a | b | c", "find . -name '*.go' | sort", "awk '{print $1}' f | sed s/a/b/", "- leading dash", "key: value", "# hash", "{{ .T }}", "null", "true", "123", "two\nlines", "tab\there", "ünï 日本", "plain words here", "", "docker ps -a --format 'table {{.Names}}\t{{.Status}}'", "x", "grep", "sort | uniq -c", "a,b", "\"quoted, comma\"", "tar czf b.tgz /home", "trailing ", " leading", "UPPER lower", "Ls -La"}
		rng := rand.New(rand.NewSource(808))
		pick := func() string { return vals[rng.Intn(len(vals))] }
		// an element of a repeated flag is never the empty string: `--keywords ""` adds nothing
		pickElem := func() string {
			for {
				if v := pick(); v != "" {
					return v
				}
			}
		}
		root, err := os.MkdirTemp("/var/tmp", "c08cli-")
		if err != nil {
			r.Falsified = []string{"cannot create scratch directory"}
			return r
		}
		defer os.RemoveAll(root)
		oldHome, oldXDG, hadXDG := os.Getenv("HOME"), os.Getenv("XDG_CONFIG_HOME"), false
		if _, ok := os.LookupEnv("XDG_CONFIG_HOME"); ok {
			hadXDG = true
		}
		os.Unsetenv("XDG_CONFIG_HOME")
		defer func() {
			os.Setenv("HOME", oldHome)
			if hadXDG {
				os.Setenv("XDG_CONFIG_HOME", oldXDG)
			}
		}()
		realStdout := os.Stdout
		defer func() { os.Stdout = realStdout }()
		capture := func(f func()) string {
			tmp, err := os.CreateTemp(root, "out")
			if err != nil {
				f()
				return ""
			}
			os.Stdout = tmp
			func() {
				defer func() { os.Stdout = realStdout }()
				f()
			}()
			tmp.Close()
			b, _ := os.ReadFile(tmp.Name())
			os.Remove(tmp.Name())
			return string(b)
		}
		for it := 0; it < 150*scale; it++ {
			home := filepath.Join(root, fmt.Sprintf("h%d", it))
			os.MkdirAll(home, 0o755)
			os.Setenv("HOME", home)
			nb := config.DefaultConfig().GetPersonalDatabasePath()
			if !strings.HasPrefix(nb, home) {
				r.Falsified = []string{fmt.Sprintf("engine: notebook path %q is not below the scratch HOME %q", nb, home)}
				return r
			}
			var model []database.Command
			if it%3 == 2 {
				os.MkdirAll(filepath.Dir(nb), 0o755)
				os.WriteFile(nb, []byte("- command: old one\n  description: kept\n  keywords: [old]\n  tags: [handwritten, oncall]\n- command: old two | tee\n  description: also kept\n  pipeline: true\n"), 0o644)
				model = []database.Command{{Command: "old one", Description: "kept", Keywords: []string{"old"}, Tags: []string{"handwritten", "oncall"}}, {Command: "old two | tee", Description: "also kept", Pipeline: true}}
			}
			for s, steps := 0, 1+rng.Intn(6); s < steps; s++ {
				command := pick()
				if s > 0 && rng.Intn(3) == 0 && len(model) > 0 {
					command = model[rng.Intn(len(model))].Command
				}
				var keywords, platforms []string
				for k := rng.Intn(3); k > 0; k-- {
					keywords = append(keywords, pickElem())
				}
				for k := rng.Intn(3); k > 0; k-- {
					platforms = append(platforms, []string{"linux", "macos", "windows", pickElem()}[rng.Intn(4)])
				}
				category := pick()
				asPipeline := rng.Intn(3) == 0
				r.Cases++
				var out, what string
				var want database.Command
				if asPipeline {
					name, desc := pick(), []string{"", pick()}[rng.Intn(2)]
					what = fmt.Sprintf("save-pipeline %q %q --description %q", name, command, desc)
					out = capture(func() { cli.VerifRunSave(true, []string{name, command}, keywords, category, platforms, false, desc) })
					want = database.Command{Command: command, Description: desc, Keywords: keywords, Niche: category, Platform: platforms, Pipeline: true}
				} else {
					desc, flag := pick(), rng.Intn(2) == 0
					what = fmt.Sprintf("save %q %q --pipeline=%v", command, desc, flag)
					out = capture(func() { cli.VerifRunSave(false, []string{command, desc}, keywords, category, platforms, flag, "") })
					want = database.Command{Command: command, Description: desc, Keywords: keywords, Niche: category, Platform: platforms, Pipeline: flag}
				}
				if !strings.Contains(out, "saved successfully") {
					// a reported failure: nothing may have been lost
					if after, lerr := database.LoadDatabase(nb); len(model) > 0 && (lerr != nil || len(after.Commands) != len(model)) {
						fail("%s reported a failure and the notebook no longer holds its %d entries", what, len(model))
					}
					continue
				}
				pos := -1
				for i := range model {
					if model[i].Command == command {
						pos = i
						break
					}
				}
				if pos < 0 {
					model = append(model, want)
					pos = len(model) - 1
				} else {
					model[pos] = want
				}
				got, lerr := database.LoadDatabase(nb)
				if lerr != nil {
					fail("after `%s` reported success the notebook cannot be loaded: %v", what, firstLine(lerr))
					break
				}
				if len(got.Commands) != len(model) {
					fail("after `%s` the notebook has %d entries, expected %d", what, len(got.Commands), len(model))
					break
				}
				for i := range model {
					g, w := got.Commands[i], model[i]
					if i == pos && asPipeline {
						// save-pipeline puts generated keywords in front of the given ones and generates a
						// description when none is given: the given values must be there as given
						tail := g.Keywords
						if len(tail) >= len(w.Keywords) {
							tail = tail[len(tail)-len(w.Keywords):]
						}
						if g.Command != w.Command || g.Niche != w.Niche || !sameStrings(g.Platform, w.Platform) || !g.Pipeline || !sameStrings(tail, w.Keywords) || (w.Description != "" && g.Description != w.Description) || g.Description == "" {
							fail("after `%s` (keywords %q, category %q, platforms %q) the entry reads back as %+v", what, w.Keywords, w.Niche, w.Platform, g)
						}
						model[i] = g
						continue
					}
					if !sameEntry(g, w) {
						fail("after `%s` (keywords %q, category %q, platforms %q) entry %d reads back as %+v, expected %+v", what, keywords, category, platforms, i, g, w)
						break
					}
				}
			}
		}
		r.Checked = []string{"`wtf save`: command, description, keywords, category, platforms and pipeline flag stored exactly as given", "`wtf save-pipeline`: command, category, platforms as given, pipeline set, given keywords kept, given description kept", "earlier entries unchanged and in place, repeated command strings replace"}
		r.Falsified = bad
		return r
	}
}
