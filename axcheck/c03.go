package main

import (
	"fmt"
	"math"
	"math/rand"
	"sort"
	"strings"
	"unicode"

	"github.com/Vedant9500/WTF/internal/database"
	"github.com/Vedant9500/WTF/internal/nlp"
)

// Reference tokenizer, written from the documented mechanism (normalise: everything except ASCII
// word characters, white space, '-' and '.' becomes a space; lower-case; split on
// non-alphanumerics; drop tokens shorter than two bytes and stop words).
func refTokens(s string, stop map[string]bool) []string {
	var b strings.Builder
	// the engine lower-cases first: U+212A, the Kelvin sign, becomes ASCII "k" and survives the
	// ASCII filter below
	for _, r := range strings.ToLower(s) {
		switch {
		case r >= 'a' && r <= 'z', r >= 'A' && r <= 'Z', r >= '0' && r <= '9', r == '_', r == '-', r == '.',
			r == ' ', r == '\t', r == '\n', r == '\f', r == '\r':
			b.WriteRune(r)
		default:
			b.WriteByte(' ')
		}
	}
	low := strings.ToLower(b.String())
	var out []string
	for _, w := range strings.FieldsFunc(low, func(r rune) bool { return !unicode.IsLetter(r) && !unicode.IsNumber(r) }) {
		if len(w) < 2 || stop[w] {
			continue
		}
		out = append(out, w)
	}
	return out
}

type refDoc struct {
	tf   [4]map[string]int
	lens [4]int
}

func refIndexDoc(c *database.Command, stop map[string]bool) refDoc {
	cmd, desc := c.Command, c.Description
	if c.CommandLower != "" {
		cmd = c.CommandLower
	}
	if c.DescriptionLower != "" {
		desc = c.DescriptionLower
	}
	keys, tags := "", ""
	if len(c.KeywordsLower) > 0 {
		keys = strings.Join(c.KeywordsLower, " ")
	} else {
		keys = strings.Join(c.Keywords, " ")
	}
	if len(c.TagsLower) > 0 {
		tags = strings.Join(c.TagsLower, " ")
	} else {
		tags = strings.Join(c.Tags, " ")
	}
	var d refDoc
	for f, text := range []string{cmd, desc, keys, tags} {
		d.tf[f] = map[string]int{}
		toks := refTokens(text, stop)
		d.lens[f] = len(toks)
		for _, t := range toks {
			d.tf[f][t]++
		}
	}
	return d
}

// refSearch: exhaustive scan. Returns score per command index for the eligible commands hit by
// at least one of the terms (AllPlatforms searches only, so every command is eligible).
func refSearch(db *database.Database, terms []string, boosts map[string]float64, stop map[string]bool) map[int]float64 {
	n := len(db.Commands)
	docs := make([]refDoc, n)
	var sum [4]int
	df := map[string]int{}
	for i := range db.Commands {
		docs[i] = refIndexDoc(&db.Commands[i], stop)
		seen := map[string]bool{}
		for f := 0; f < 4; f++ {
			sum[f] += docs[i].lens[f]
			for t := range docs[i].tf[f] {
				seen[t] = true
			}
		}
		for t := range seen {
			df[t]++
		}
	}
	k1, w, b, minIDF := db.VerifBM25FParams()
	var avg [4]float64
	for f := 0; f < 4; f++ {
		avg[f] = float64(sum[f]) / float64(n)
	}
	scores := map[int]float64{}
	for _, t := range terms {
		if df[t] == 0 {
			continue
		}
		idf := math.Log((float64(n)-float64(df[t])+0.5)/(float64(df[t])+0.5) + 1)
		if idf < minIDF {
			continue
		}
		boost := 1.0
		if x, ok := boosts[t]; ok && x > 0 {
			boost = x
		}
		for i := range docs {
			hit := false
			s := 0.0
			for f := 0; f < 4; f++ {
				tf := float64(docs[i].tf[f][t])
				if tf > 0 {
					hit = true
					a := avg[f]
					if a <= 0 {
						a = 1
					}
					s += w[f] * tf * (k1 + 1) / (w[f]*tf + k1*(1-b[f]+b[f]*float64(docs[i].lens[f])/a))
				}
			}
			if hit {
				scores[i] += idf * boost * s
			}
		}
	}
	return scores
}

var nlpStopWords = nlp.StopWords()

func init() {
	// C03: the real index + SearchUniversal (NLP off) against an independent exhaustive scan.
	suites["C03-index-scan"] = func() result {
		r := result{Name: "C03-index-scan", Bound: "real BuildUniversalIndex/SearchUniversal (UseNLP off, AllPlatforms, limit > database size) against an independent scan-and-score of the command texts: every database of 1..2 commands over 36 hand-made commands (1,332) and 4,000 seeded random databases of 1..9 commands over a 40-word vocabulary (ASCII, upper case, accents, CJK, stop words, one-byte words, punctuation, duplicates, empty fields, with, without and with only some of the cached lower-case fields), each with 14 queries (1..12 content words, repeated words, boosted words); histories: direct growth of Commands (lazy rebuild), CachedDatabase.UpdateDatabase, search-before-and-after; score tolerance 1e-9 relative; also tokenizer determinism"}
		stop := nlp.StopWords()
		var bad []string
		fail := func(f string, a ...interface{}) {
			if len(bad) < 5 {
				bad = append(bad, fmt.Sprintf(f, a...))
			}
		}
		words := []string{"git", "commit", "file", "files", "list", "ls", "docker", "run", "tar", "zip", "café", "naïve", "日本語", "GIT", "Commit", "the", "a", "of", "x", "go", "rm", "find", "grep", "-rf", "--all", "a.b", "foo_bar", "foo-bar", "C++", "node.js", "k8s", "2fa", "ssh", "copy", "move", "show", "delete", "compress", "network", "disk"}
		queries := [][]string{{"git"}, {"commit", "file"}, {"list", "files"}, {"the", "git"}, {"docker", "run", "tar"}, {"git", "git"}, {"café"}, {"GIT", "Commit"}, {"foo_bar", "foo-bar", "a.b"},
			{"x", "a", "of"}, {"zip", "tar", "rm", "find", "grep", "ssh", "copy", "move", "show", "delete"},
			{"git", "commit", "file", "list", "docker", "run", "tar", "zip", "rm", "find", "grep", "ssh"}, {"node.js", "k8s", "2fa"}, {"compress", "network", "disk", "日本語"}}
		checkDB := func(db *database.Database, tag string, rng *rand.Rand) {
			for qi, qw := range queries {
				q := strings.Join(qw, " ")
				boosts := map[string]float64{}
				if rng != nil && qi%3 == 1 {
					boosts[strings.ToLower(qw[0])] = 1 + float64(rng.Intn(5))*0.5
				}
				opts := database.SearchOptions{Limit: len(db.Commands) + 5, UseNLP: false, AllPlatforms: true, ContextBoosts: boosts}
				r.Cases++
				got := db.SearchUniversal(q, opts)
				terms := refTokens(q, stop)
				want := refSearch(db, terms, boosts, stop)
				idxOf := map[*database.Command]int{}
				for i := range db.Commands {
					idxOf[&db.Commands[i]] = i
				}
				if len(terms) <= 10 {
					if len(got) != len(want) {
						fail("%s query %q: %d results, exhaustive scan finds %d", tag, q, len(got), len(want))
						continue
					}
					for _, g := range got {
						i, ok := idxOf[g.Command]
						ws, hit := want[i]
						if !ok || !hit {
							fail("%s query %q: result %q is not a scan hit", tag, q, g.Command.Command)
							continue
						}
						if math.Abs(g.Score-ws) > 1e-9*math.Max(1, math.Abs(ws)) {
							fail("%s query %q: score of %q is %v, recomputed %v", tag, q, g.Command.Command, g.Score, ws)
						}
					}
				} else {
					// long query: results are scan hits, and every hit of the first four terms is returned
					first := refSearch(db, terms[:4], boosts, stop)
					gotSet := map[int]bool{}
					for _, g := range got {
						i := idxOf[g.Command]
						gotSet[i] = true
						if _, hit := want[i]; !hit {
							fail("%s long query %q: result %q is not a scan hit", tag, q, g.Command.Command)
						}
					}
					for i := range first {
						if !gotSet[i] {
							fail("%s long query %q: command %d hit by one of the first four terms is missing", tag, q, i)
						}
					}
				}
			}
		}
		mk := func(c, d string, k, t []string, lower bool) database.Command {
			cmd := database.Command{Command: c, Description: d, Keywords: k, Tags: t}
			if lower {
				cmd.CommandLower, cmd.DescriptionLower = strings.ToLower(c), strings.ToLower(d)
				for _, x := range k {
					cmd.KeywordsLower = append(cmd.KeywordsLower, strings.ToLower(x))
				}
				for _, x := range t {
					cmd.TagsLower = append(cmd.TagsLower, strings.ToLower(x))
				}
			}
			return cmd
		}
		// hand-made commands, all databases of size 1..2
		var base []database.Command
		for _, c := range []string{"git commit", "ls -la", "", "tar czf file.tar"} {
			for _, d := range []string{"commit the files", "", "List Files café"} {
				for _, k := range [][]string{nil, {"git", "file"}, {"list files", "GIT"}} {
					base = append(base, mk(c, d, k, []string{"git"}[:len(k)%2], len(k) == 2))
				}
			}
		}
		for i := range base {
			checkDB(&database.Database{Commands: []database.Command{base[i]}}, fmt.Sprintf("db[%d]", i), nil)
			for j := range base {
				checkDB(&database.Database{Commands: []database.Command{base[i], base[j]}}, fmt.Sprintf("db[%d,%d]", i, j), nil)
			}
		}
		// random databases and histories
		rng := rand.New(rand.NewSource(3))
		phrase := func(max int) string {
			n := rng.Intn(max + 1)
			var ws []string
			for i := 0; i < n; i++ {
				ws = append(ws, words[rng.Intn(len(words))])
			}
			return strings.Join(ws, []string{" ", "  ", ", ", "/"}[rng.Intn(4)])
		}
		list := func() []string {
			var l []string
			for i := rng.Intn(4); i > 0; i-- {
				l = append(l, phrase(2))
			}
			return l
		}
		randCmds := func(n int, lower bool) []database.Command {
			var cs []database.Command
			for i := 0; i < n; i++ {
				c := mk(phrase(4), phrase(6), list(), list(), lower)
				if lower && rng.Intn(3) == 0 {
					// partially cached: some of the lower-case copies are missing (commands built
					// by hand or by older code); the indexer falls back to the raw field for each
					switch rng.Intn(4) {
					case 0:
						c.TagsLower = nil
					case 1:
						c.KeywordsLower = nil
					case 2:
						c.DescriptionLower = ""
					case 3:
						c.CommandLower = ""
					}
				}
				cs = append(cs, c)
			}
			return cs
		}
		for it := 0; it < 4000*scale; it++ {
			lower := it%2 == 0
			db := &database.Database{Commands: randCmds(1+rng.Intn(9), lower)}
			tag := fmt.Sprintf("random[%d]", it)
			switch it % 4 {
			case 0:
				db.BuildUniversalIndex()
				checkDB(db, tag, rng)
			case 1: // lazy build, then growth of the command list behind the index
				checkDB(db, tag, rng)
				db.Commands = append(db.Commands, randCmds(1+rng.Intn(3), lower)...)
				checkDB(db, tag+"+grown", rng)
			case 2: // replacement through the cached database
				cdb := database.NewCachedDatabase(db)
				checkDB(cdb.Database, tag, rng)
				cdb.UpdateDatabase(randCmds(1+rng.Intn(9), lower))
				checkDB(cdb.Database, tag+"+updated", rng)
			case 3: // shrink
				db.BuildUniversalIndex()
				checkDB(db, tag, rng)
				if len(db.Commands) > 1 {
					db.Commands = db.Commands[:len(db.Commands)-1]
					checkDB(db, tag+"+shrunk", rng)
				}
			}
		}
		// the tokenizer is a function of its argument (assumption behind tokensOf): the same
		// query twice gives the same answer, element for element
		for it := 0; it < 500; it++ {
			db := &database.Database{Commands: randCmds(1+rng.Intn(5), false)}
			q := phrase(6)
			a := db.SearchUniversal(q, database.SearchOptions{Limit: 50, AllPlatforms: true})
			b := db.SearchUniversal(q, database.SearchOptions{Limit: 50, AllPlatforms: true})
			r.Cases++
			sa, sb := map[*database.Command]float64{}, map[*database.Command]float64{}
			for _, x := range a {
				sa[x.Command] = x.Score
			}
			for _, x := range b {
				sb[x.Command] = x.Score
			}
			if len(sa) != len(sb) {
				fail("same query %q twice: %d vs %d results", q, len(sa), len(sb))
			}
			for c, s := range sa {
				if sb[c] != s {
					fail("same query %q twice: score of %q differs", q, c.Command)
				}
			}
		}
		sort.Strings(bad)
		r.Falsified = bad
		r.Checked = []string{"candidate set = exhaustive scan hits (<= 10 content words)", "scores = recomputed BM25F sums", "long queries: results are hits, first four terms' hits retained", "after growth / UpdateDatabase / shrink the answers follow the current command list", "tokenizer determinism"}
		return r
	}
}
