package main

import (
	"fmt"
	"math/rand"
	"strings"
	"unicode"

	"github.com/Vedant9500/WTF/internal/database"
	"github.com/Vedant9500/WTF/internal/nlp"
	"github.com/Vedant9500/WTF/internal/validation"
)

// respell changes the case of letters whose upper-casing folds back to the same lower case
// (everything except a handful of code points such as U+0130, final sigma, long s).
func respell(s string, rng *rand.Rand, mode int) string {
	var b strings.Builder
	for _, r := range s {
		u := unicode.ToUpper(r)
		ok := unicode.ToLower(u) == unicode.ToLower(r) && unicode.ToLower(r) == r
		switch {
		case !ok:
			b.WriteRune(r)
		case mode == 3:
			// letters that have a second upper-case form of a different byte length
			switch r {
			case 'k':
				b.WriteRune('\u212a') // Kelvin sign
			case 'å':
				b.WriteRune('\u212b') // Angstrom sign
			case 'ω':
				b.WriteRune('\u2126') // Ohm sign
			default:
				b.WriteRune(r)
			}
		case mode == 0, mode == 1 && b.Len() == 0, mode == 2 && rng.Intn(2) == 0:
			b.WriteRune(u)
		default:
			b.WriteRune(r)
		}
	}
	return b.String()
}

func sameResults(a, b []database.SearchResult) string {
	if len(a) != len(b) {
		return fmt.Sprintf("%d vs %d results", len(a), len(b))
	}
	for i := range a {
		if a[i].Command != b[i].Command {
			return fmt.Sprintf("position %d: %q vs %q", i, a[i].Command.Command, b[i].Command.Command)
		}
		if a[i].Score != b[i].Score {
			return fmt.Sprintf("score of %q: %v vs %v", a[i].Command.Command, a[i].Score, b[i].Score)
		}
	}
	return ""
}

func init() {
	// C20 (bounded): the assumed case lemmas of the library (normalisers commute with case, the
	// fuzzy matcher folds) and the whitespace clause, checked end to end on the real code.
	suites["C20-case-ws"] = func() result {
		r := result{Name: "C20-case-ws", Bound: "real SearchUniversal / cached search / ProcessQuery / TF-IDF / ValidateQuery on a 14-command database: 60 base queries (1..6 words from a 39-word vocabulary with ASCII, accented, Greek, Cyrillic, digits, punctuation, typos) x 4 case re-spellings (upper, title, seeded random, Kelvin / Angstrom / Ohm signs for k / å / ω) x 6 option sets (NLP, fuzzy, pipeline, limit); whitespace: 60 queries x 11 paddings (spaces, tabs, newlines, CR next to blanks, no-break / em / ideographic spaces, leading / trailing / repeated) through ValidateQuery"}
		var bad []string
		fail := func(f string, a ...interface{}) {
			if len(bad) < 5 {
				bad = append(bad, fmt.Sprintf(f, a...))
			}
		}
		mk := func(c, d string, k ...string) database.Command {
			cmd := database.Command{Command: c, Description: d, Keywords: k}
			cmd.CommandLower, cmd.DescriptionLower = strings.ToLower(c), strings.ToLower(d)
			for _, x := range k {
				cmd.KeywordsLower = append(cmd.KeywordsLower, strings.ToLower(x))
			}
			return cmd
		}
		cmds := []database.Command{
			mk("tar -czf archive.tar.gz dir", "Compress a directory into a gzip archive", "compress", "archive", "tar"),
			mk("git commit -m msg", "Commit staged changes", "git", "commit", "save"),
			mk("ls -la", "List files in a directory", "list", "files", "directory"),
			mk("find . -name '*.go'", "Find files by name", "find", "search", "files"),
			mk("grep -r pattern .", "Search text in files recursively", "grep", "search", "text"),
			mk("docker run -it ubuntu", "Run a container interactively", "docker", "container", "run"),
			mk("curl -O https://example.com/file", "Download a file from the network", "download", "network", "curl"),
			mk("df -h", "Show disk usage", "disk", "usage", "space"),
			mk("café --résumé", "Ouvre le résumé du café", "café", "résumé"),
			mk("λ-calc Σύνολο", "Υπολογισμός συνόλου", "σύνολο", "λ"),
			mk("копировать файл", "Скопировать файл в каталог", "копировать", "файл"),
			mk("unzip file.zip", "Extract a zip archive", "unzip", "extract", "archive"),
			mk("ps aux | grep name", "Show running processes", "process", "list", "ps"),
			mk("ssh user@host", "Connect to a remote machine", "ssh", "remote", "connect"),
		}
		words := []string{"compress", "archive", "directory", "git", "commit", "list", "files", "find", "search", "text", "docker", "run", "download", "network", "disk", "usage", "show", "the", "a", "how", "to", "café", "résumé", "σύνολο", "файл", "копировать", "zip", "2fa", "k8s", "comprss", "fles", "seach", "tar.gz", "node.js", "doker", "netwrk", "dsk", "kubctl", "grk"}
		rng := rand.New(rand.NewSource(20))
		var queries []string
		for i := 0; i < 60*scale; i++ {
			n := 1 + rng.Intn(6)
			var ws []string
			for j := 0; j < n; j++ {
				ws = append(ws, words[rng.Intn(len(words))])
			}
			queries = append(queries, strings.Join(ws, " "))
		}
		optSets := []database.SearchOptions{
			{Limit: 20, AllPlatforms: true},
			{Limit: 20, AllPlatforms: true, UseNLP: true},
			{Limit: 20, AllPlatforms: true, UseFuzzy: true, FuzzyThreshold: -50},
			{Limit: 3, AllPlatforms: true, UseNLP: true, UseFuzzy: true},
			{Limit: 20, AllPlatforms: true, PipelineOnly: true, UseNLP: true},
			{Limit: 0, AllPlatforms: true, UseNLP: true, ContextBoosts: map[string]float64{"git": 2, "archive": 1.5}},
		}
		proc := nlp.NewQueryProcessor()
		for _, q := range queries {
			for mode := 0; mode < 4; mode++ {
				q2 := respell(q, rng, mode)
				if q2 == q {
					continue
				}
				for oi, o := range optSets {
					db := &database.Database{Commands: append([]database.Command(nil), cmds...)}
					db.BuildUniversalIndex()
					r.Cases++
					a, b := db.SearchUniversal(q, o), db.SearchUniversal(q2, o)
					if d := sameResults(a, b); d != "" {
						fail("SearchUniversal(%q) vs (%q), options #%d: %s", q, q2, oi, d)
					}
					cdb := database.NewCachedDatabase(&database.Database{Commands: append([]database.Command(nil), cmds...)})
					first := cdb.SearchWithOptionsAndCache(q, o)
					second := cdb.SearchWithOptionsAndCache(q2, o)
					fresh := database.NewCachedDatabase(&database.Database{Commands: append([]database.Command(nil), cmds...)}).SearchWithOptionsAndCache(q2, o)
					if len(first) != len(second) || len(second) != len(fresh) {
						fail("cached search (%q) then (%q), options #%d: %d / %d / fresh %d results", q, q2, oi, len(first), len(second), len(fresh))
					} else {
						for i := range second {
							if second[i].Command.Command != fresh[i].Command.Command || second[i].Score != fresh[i].Score {
								fail("cached answer for %q (filed under %q) differs from a fresh one at position %d", q2, q, i)
								break
							}
						}
					}
				}
				pa, pb := proc.ProcessQuery(q), proc.ProcessQuery(q2)
				r.Cases++
				if strings.Join(pa.Keywords, ",") != strings.Join(pb.Keywords, ",") || strings.Join(pa.Actions, ",") != strings.Join(pb.Actions, ",") || strings.Join(pa.Targets, ",") != strings.Join(pb.Targets, ",") || pa.Intent != pb.Intent {
					fail("ProcessQuery(%q) vs (%q): analyses differ", q, q2)
				}
				if strings.Join(pa.GetEnhancedKeywords(), ",") != strings.Join(pb.GetEnhancedKeywords(), ",") {
					fail("GetEnhancedKeywords for %q vs %q differ", q, q2)
				}
			}
		}
		// whitespace at the command line
		pads := []func(string) string{
			func(s string) string { return "  " + s },
			func(s string) string { return s + " \t " },
			func(s string) string { return "\n" + s + "\n" },
			func(s string) string { return strings.ReplaceAll(s, " ", "   ") },
			func(s string) string { return strings.ReplaceAll(s, " ", " \t ") },
			func(s string) string { return strings.ReplaceAll(s, " ", "\r ") },
			func(s string) string { return strings.ReplaceAll(s, " ", " \r") },
			func(s string) string { return "\r\n " + strings.ReplaceAll(s, " ", "\n") + " \r\n" },
			func(s string) string { return "\t\t" + strings.ReplaceAll(s, " ", "\t") + "\v" },
			func(s string) string { return strings.ReplaceAll(s, " ", " \u00a0") },                            // no-break space
			func(s string) string { return "\u3000" + strings.ReplaceAll(s, " ", "\u2003\u2003") + "\u2028" }, // ideographic, em space, line separator
		}
		for _, q := range queries {
			base, err := validation.ValidateQuery(q)
			for pi, pad := range pads {
				r.Cases++
				got, err2 := validation.ValidateQuery(pad(q))
				if (err == nil) != (err2 == nil) || got != base {
					fail("ValidateQuery(%q) = %q, %v but padded #%d %q gives %q, %v", q, base, err, pi, pad(q), got, err2)
				}
			}
		}
		r.Falsified = bad
		r.Checked = []string{"SearchUniversal(q) == SearchUniversal(respell(q)) element for element", "a case variant filed under the same cache key gets the answer a fresh search would give", "ProcessQuery / GetEnhancedKeywords are case-blind", "ValidateQuery is blind to leading / trailing / repeated whitespace"}
		return r
	}
}
