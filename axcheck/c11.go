package main

import (
	"fmt"
	"math/rand"
	"reflect"
	"sync"

	"github.com/Vedant9500/WTF/internal/database"
)

func init() {
	// C11 (bounded): a search answers as if it ran alone. Two things a per-call proof keyed by
	// loop ordinals loses when the code is restructured: (1) a search leaves its arguments (the
	// context-boost map, the platform list) and the command list exactly as it found them - so
	// that callers sharing one options value cannot influence each other; (2) searches issued
	// from several goroutines against one cached / monitored database each get the answer the
	// same request gets alone.
	suites["C11-isolation"] = func() result {
		r := result{Name: "C11-isolation", Bound: "real SearchUniversal / cached / monitored search: 300 seeded random databases x 6 requests sharing their option values (one context-boost map, one platform slice) checked for argument and database immutability and re-run alone; 40 loaded databases x 8 goroutines x 30 requests against one monitored database while another goroutine invalidates / sweeps the cache and reads statistics, each answer compared with the answer alone"}
		rng := rand.New(rand.NewSource(11))
		var bad []string
		var mu sync.Mutex
		fail := func(f string, a ...interface{}) {
			mu.Lock()
			defer mu.Unlock()
			if len(bad) < 5 {
				bad = append(bad, fmt.Sprintf(f, a...))
			}
		}
		same := func(a, b []database.SearchResult) bool {
			if len(a) != len(b) {
				return false
			}
			for i := range a {
				if a[i].Command.Command != b[i].Command.Command || a[i].Score != b[i].Score {
					return false
				}
			}
			return true
		}
		for it := 0; it < 300*scale; it++ {
			cmds := platformDB(rng, 6+rng.Intn(25))
			boosts := map[string]float64{diffWords[rng.Intn(len(diffWords))]: 1.5, "build": 1.3, "docker": 2}
			plats := []string{"linux", "macos"}
			db := &database.Database{Commands: cloneCmds(cmds)}
			for k := 0; k < 6; k++ {
				q := diffQuery(rng, 4)
				o := randOptions(rng)
				o.ContextBoosts, o.Platforms = boosts, plats // shared between the requests, as a caller may
				o.UseNLP = k%2 == 0
				wantBoosts := map[string]float64{}
				for bk, bv := range boosts {
					wantBoosts[bk] = bv
				}
				before := cloneCmds(db.Commands)
				got := db.SearchUniversal(q, o)
				r.Cases++
				if !reflect.DeepEqual(boosts, wantBoosts) {
					fail("SearchUniversal(%q, nlp=%v) changed the caller's context-boost map: %v, it was %v", q, o.UseNLP, boosts, wantBoosts)
					for bk := range boosts {
						delete(boosts, bk)
					}
					for bk, bv := range wantBoosts {
						boosts[bk] = bv
					}
				}
				if !reflect.DeepEqual(plats, []string{"linux", "macos"}) {
					fail("SearchUniversal(%q) changed the caller's platform list: %v", q, plats)
					plats[0], plats[1] = "linux", "macos"
				}
				for i := range before {
					if !reflect.DeepEqual(before[i].Command, db.Commands[i].Command) || !reflect.DeepEqual(before[i].Keywords, db.Commands[i].Keywords) || !reflect.DeepEqual(before[i].Platform, db.Commands[i].Platform) || before[i].Description != db.Commands[i].Description {
						fail("SearchUniversal(%q) changed entry %d of the database", q, i)
						break
					}
				}
				alone := (&database.Database{Commands: cloneCmds(cmds)}).SearchUniversal(q, database.SearchOptions{Limit: o.Limit, ContextBoosts: wantBoosts, PipelineOnly: o.PipelineOnly, PipelineBoost: o.PipelineBoost, UseFuzzy: o.UseFuzzy, FuzzyThreshold: o.FuzzyThreshold, UseNLP: o.UseNLP, TopTermsCap: o.TopTermsCap, AllPlatforms: o.AllPlatforms, Platforms: []string{"linux", "macos"}, NoCrossPlatform: o.NoCrossPlatform})
				if !same(got, alone) {
					fail("request %d (%q, nlp=%v) sharing its option values with earlier requests is answered differently from the same request alone (%d vs %d results)", k, q, o.UseNLP, len(got), len(alone))
				}
			}
		}
		// several goroutines, one monitored database
		for it := 0; it < 40*scale && len(bad) == 0; it++ {
			cmds := platformDB(rng, 10+rng.Intn(20))
			mdb := database.NewMonitoredDatabase(&database.Database{Commands: cloneCmds(cmds)})
			// "one loaded database": index and re-ranker are built before the goroutines start
			if err := mdb.LoadDatabaseWithMonitoring(cloneCmds(cmds)); err != nil {
				fail("LoadDatabaseWithMonitoring failed: %v", err)
				continue
			}
			type req struct {
				q    string
				o    database.SearchOptions
				want []database.SearchResult
			}
			var reqs []req
			shared := map[string]float64{"docker": 2, "build": 1.3}
			for k := 0; k < 12; k++ {
				o := randOptions(rng)
				if k%3 == 0 {
					o.ContextBoosts = shared
				}
				q := diffQuery(rng, 3)
				reqs = append(reqs, req{q, o, (&database.Database{Commands: cloneCmds(cmds)}).SearchUniversal(q, o)})
			}
			var wg sync.WaitGroup
			for g := 0; g < 8; g++ {
				wg.Add(1)
				go func(g int) {
					defer wg.Done()
					defer func() {
						if rec := recover(); rec != nil {
							fail("concurrent search panicked: %v", rec)
						}
					}()
					for n := 0; n < 30; n++ {
						rq := reqs[(g*7+n)%len(reqs)]
						got := mdb.SearchWithOptionsAndMonitoring(rq.q, rq.o)
						if !same(got, rq.want) {
							d := ""
							for i := range got {
								if i < len(rq.want) && (got[i].Command.Command != rq.want[i].Command.Command || got[i].Score != rq.want[i].Score) {
									d = fmt.Sprintf("position %d: %q %v, alone %q %v", i, got[i].Command.Command, got[i].Score, rq.want[i].Command.Command, rq.want[i].Score)
									break
								}
							}
							fail("goroutine %d: search %q %+v answered differently from the same search alone (%d vs %d results; %s)", g, rq.q, rq.o, len(got), len(rq.want), d)
							return
						}
					}
				}(g)
			}
			// meanwhile others invalidate the cache, sweep it and read statistics
			wg.Add(1)
			go func() {
				defer wg.Done()
				for n := 0; n < 40; n++ {
					switch n % 3 {
					case 0:
						mdb.InvalidateCache()
					case 1:
						mdb.CleanupExpiredCache()
					default:
						mdb.GetCacheStats()
					}
				}
			}()
			wg.Wait()
			r.Cases += 240
		}
		r.Checked = []string{"a search leaves the caller's context-boost map, platform list and the command list unchanged", "requests sharing option values are answered as if alone", "concurrent searches on one monitored database each get the answer they get alone"}
		r.Falsified = bad
		return r
	}
}
