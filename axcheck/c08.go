package main

import (
	"fmt"
	"math/rand"
	"os"
	"path/filepath"
	"strings"

	"github.com/Vedant9500/WTF/internal/cli"
	"github.com/Vedant9500/WTF/internal/database"
)

func sameStrings(a, b []string) bool {
	if len(a) != len(b) {
		return false
	}
	for i := range a {
		if a[i] != b[i] {
			return false
		}
	}
	return true
}

func sameEntry(a, b database.Command) bool {
	return a.Command == b.Command && a.Description == b.Description && sameStrings(a.Keywords, b.Keywords) && a.Niche == b.Niche && sameStrings(a.Platform, b.Platform) && a.Pipeline == b.Pipeline && sameStrings(a.Tags, b.Tags)
}

func init() {
	// C08 (bounded): what is saved goes through YAML and back. The list logic is under contract
	// (saveToPersonalDatabase); this suite runs the real save / load / merge / search on argument
	// strings a shell can pass.
	suites["C08-notebook"] = func() result {
		r := result{Name: "C08-notebook", Bound: "real saveToPersonalDatabase + LoadDatabaseWithPersonal + SearchUniversal: 400 seeded sequences of 1..8 saves (fresh and repeated command strings) starting from a missing, an empty and a populated notebook, field values drawn from 46 shell-passable strings (leading '-', ': ', '#', quotes, '{{...}}', 'null', 'true', '~', numbers, multi-line, tabs, trailing blanks, Unicode, control characters, invalid UTF-8, empty)"}
		var bad []string
		fail := func(f string, a ...interface{}) {
			if len(bad) < 6 {
				bad = append(bad, fmt.Sprintf(f, a...))
			}
		}
		nasty := []string{"plain text", "- leading dash", "key: value", "# not a comment", "'single'", "\"double\"", "{{ .Template }}", "null", "true", "~", "123", "1.5e3", "0x1F", "line one\nline two", "tab\there", "trailing blank ", " leading blank", "ünï cödé 日本語", "emoji 🎉", "a: b: c", "[list]", "{map: 1}", "| pipe", "> fold", "&anchor", "*alias", "!tag", "%percent", "@at", "`backtick`", "back\\slash", "colon:", "dash -", "?", "yes", "No", "", "multi\n\nblank\n", "crlf\r\nline", "very " + strings.Repeat("long ", 60), "nul\x00byte", "esc\x1b[31mred", "bell\x07", "\xff\xfe invalid utf8", "bad \xc3( seq", "del\x7f"}
		rng := rand.New(rand.NewSource(8))
		pick := func() string { return nasty[rng.Intn(len(nasty))] }
		root, err := os.MkdirTemp("/var/tmp", "c08-")
		if err != nil {
			r.Falsified = []string{"cannot create scratch directory"}
			return r
		}
		defer os.RemoveAll(root)
		mainPath := filepath.Join(root, "main.yml")
		os.WriteFile(mainPath, []byte("- command: git status\n  description: show the working tree status\n  keywords: [git, status]\n- command: ls -la\n  description: list files\n  keywords: [list, files]\n"), 0o644)
		for it := 0; it < 400*scale; it++ {
			dir := filepath.Join(root, fmt.Sprintf("n%d", it))
			nb := filepath.Join(dir, "sub", "personal.yml")
			var model []database.Command
			switch it % 3 {
			case 1:
				os.MkdirAll(filepath.Dir(nb), 0o755)
				os.WriteFile(nb, []byte(""), 0o644)
			case 2:
				os.MkdirAll(filepath.Dir(nb), 0o755)
				os.WriteFile(nb, []byte("- command: old one\n  description: kept\n  keywords: [old]\n  tags: [handwritten, oncall]\n  pipeline: false\n- command: old two\n  description: also kept\n  pipeline: true\n"), 0o644)
				model = []database.Command{{Command: "old one", Description: "kept", Keywords: []string{"old"}, Tags: []string{"handwritten", "oncall"}}, {Command: "old two", Description: "also kept", Pipeline: true}}
			}
			steps := 1 + rng.Intn(8)
			for s := 0; s < steps; s++ {
				e := database.Command{Command: pick(), Description: pick(), Niche: pick(), Pipeline: rng.Intn(2) == 0}
				if e.Command == "" {
					e.Command = "cmd " + pick()
				}
				if s > 0 && rng.Intn(3) == 0 && len(model) > 0 {
					e.Command = model[rng.Intn(len(model))].Command // save an existing command string again
				}
				for k := rng.Intn(3); k > 0; k-- {
					e.Keywords = append(e.Keywords, pick())
				}
				for k := rng.Intn(3); k > 0; k-- {
					e.Platform = append(e.Platform, []string{"linux", "macos", "windows", pick()}[rng.Intn(4)])
				}
				r.Cases++
				if err := cli.VerifSaveToPersonalDatabase(nb, e); err != nil {
					// a reported failure is allowed: nothing may have changed then
					after, lerr := database.LoadDatabase(nb)
					if len(model) > 0 && (lerr != nil || len(after.Commands) != len(model)) {
						fail("save of %q failed (%v) and the notebook no longer holds its %d entries (%v)", e.Command, err, len(model), lerr)
					}
					continue
				}
				replaced := false
				for i := range model {
					if model[i].Command == e.Command {
						model[i] = e
						replaced = true
						break
					}
				}
				if !replaced {
					model = append(model, e)
				}
				got, lerr := database.LoadDatabase(nb)
				if lerr != nil {
					fail("after a successful save of %q (description %q) the notebook cannot be loaded: %v", e.Command, e.Description, lerr)
					break
				}
				if len(got.Commands) != len(model) {
					fail("after saving %q the notebook has %d entries, expected %d", e.Command, len(got.Commands), len(model))
					break
				}
				for i := range model {
					if !sameEntry(got.Commands[i], model[i]) {
						fail("after saving %q entry %d reads back as %+v, expected %+v", e.Command, i, got.Commands[i], model[i])
						break
					}
				}
			}
			// the database used for searching: main entries followed by the notebook entries
			db, merr := database.LoadDatabaseWithPersonal(mainPath, nb)
			if merr != nil {
				fail("merged load failed: %v", merr)
				continue
			}
			if len(db.Commands) != 2+len(model) || db.Commands[0].Command != "git status" || db.Commands[1].Command != "ls -la" {
				fail("merged database has %d entries, expected the 2 main entries followed by %d notebook entries", len(db.Commands), len(model))
				continue
			}
			for i := range model {
				if !sameEntry(db.Commands[2+i], model[i]) {
					fail("merged database entry %d differs from notebook entry %d", 2+i, i)
					break
				}
			}
			// a saved command is found by the next search for its words
			for i := range model {
				words := refTokens(model[i].Description+" "+model[i].Command, stopWordsC08())
				if len(words) == 0 {
					continue
				}
				res := db.SearchUniversal(words[0], database.SearchOptions{Limit: len(db.Commands) + 1, AllPlatforms: true})
				found := false
				for _, x := range res {
					if x.Command == &db.Commands[2+i] {
						found = true
					}
				}
				if !found {
					fail("saved command %q is not found by a search for its word %q", model[i].Command, words[0])
					break
				}
			}
		}
		r.Falsified = bad
		r.Checked = []string{"a successful save reads back exactly (command, description, keywords, category, platforms, pipeline)", "earlier entries unchanged and in place; same command string replaces", "merged database = main entries then notebook entries", "saved command found by a search for one of its words", "a failed save leaves the notebook as it was"}
		return r
	}
}

func stopWordsC08() map[string]bool { return nlpStopWords }
