package main

import (
	stderrors "errors"
	"fmt"
	"io/fs"
	"math"
	"math/rand"
	"os"
	"path/filepath"
	"strings"
	"time"

	"github.com/Vedant9500/WTF/internal/database"
	apperrors "github.com/Vedant9500/WTF/internal/errors"
	"github.com/Vedant9500/WTF/internal/recovery"
)

func init() {
	// C10 (bounded): arbitrary file content through the real YAML decoder, then arbitrary queries
	// and options through every search entry point. Complements the safety sweep, which starts
	// from "the decoder returned an arbitrary []Command".
	suites["C10-robustness"] = func() result {
		r := result{Name: "C10-robustness", Bound: "real LoadDatabase on 60 hand-made and 600 seeded random file contents (valid lists, other YAML shapes, damaged YAML, binary, empty, huge scalars), a missing file and a directory; every loaded database searched with 24 queries (NUL, invalid UTF-8, 1000 characters, blanks, punctuation, long word lists) x 8 option sets (limits <= 0, huge, NLP, fuzzy, negative thresholds, pipeline, platforms, TopTermsCap 1..3) through SearchUniversal, Search, SearchWithOptions, SearchWithPipelineOptions, SearchWithFuzzy, SearchWithNLP, the cached search, GetSuggestions and the recovery search; each call bounded by 60 s (a generous bound: the check looks for hangs and runaway loops, not for speed)"}
		var bad []string
		fail := func(f string, a ...interface{}) {
			if len(bad) < 6 {
				bad = append(bad, fmt.Sprintf(f, a...))
			}
		}
		root, err := os.MkdirTemp("/var/tmp", "c10-")
		if err != nil {
			r.Falsified = []string{"cannot create scratch directory"}
			return r
		}
		defer os.RemoveAll(root)
		rng := rand.New(rand.NewSource(10))
		contents := []string{
			"", "\n", "[]", "- command: ls\n  description: list\n", "- command: ls\n- command: \n  description: only description\n  keywords: [a, b]\n",
			"command: not a list\n", "just a scalar", "42", "null", "~", "- 1\n- 2\n", "- [nested, list]\n", "- command: [a, b]\n", "- command: {k: v}\n",
			"- command: ls\n  keywords: notalist\n", "- command: ls\n  pipeline: maybe\n", "- command: ls\n  platform: linux\n", "- command: \"unterminated\n", "- command: ls\n description: bad indent\n",
			"\t- tab indented", "{", "}", "[", "- &a [*a]\n", "- command: *undefined\n", "%YAML 9.9\n---\n- command: x\n", "--- \n...\n---\n- command: two docs\n",
			"- command: \"backup\\0old\"\n  description: \"file\\0name in the middle\"\n  keywords: [\"a\\0b\"]\n", "\x00\x01\x02\xff\xfe", "\xef\xbb\xbf- command: bom\n", "- command: \"\\x00nul\"\n  description: \"\\uFFFF\"\n", "- command: " + strings.Repeat("x", 100000) + "\n",
			"- command: ls\n  description: " + strings.Repeat("word ", 5000) + "\n", strings.Repeat("- command: c\n  description: d\n", 3000),
			"- command: ''\n  description: ''\n  keywords: ['', '']\n  tags: [~]\n", "- keywords: [only keywords]\n", "- tags: [only, tags]\n  platform: []\n",
			"- command: \"multi\\nline\"\n  description: |\n    block\n    text\n", "- command: !!binary aGVsbG8=\n", "- command: !!float 1.5\n", "- command: 2024-01-01\n",
			"- ? complex key\n  : value\n", "- command: ls\n  unknown_field: 1\n", "- command: ls\n  command: dup key\n", "a: &x\n  - *x\n",
		}
		for len(contents) < 60 {
			contents = append(contents, fmt.Sprintf("- command: c%d\n  description: generated %d\n  keywords: [k%d]\n  platform: [%s]\n  pipeline: %v\n", len(contents), len(contents), len(contents), []string{"linux", "windows", "macos", "cross-platform", "Darwin"}[len(contents)%5], len(contents)%2 == 0))
		}
		frag := []string{"- command: ", "  description: ", "  keywords: [", "]", "\n", ": ", "- ", "  ", "\"", "'", "{", "}", "[", "&a ", "*a", "|", ">", "#", "!!", "ls -la", "git", "true", "null", "1e9", "\x00", "\xff", "é", "\t"}
		for i := 0; i < 600*scale; i++ {
			var b strings.Builder
			for k := rng.Intn(30); k > 0; k-- {
				b.WriteString(frag[rng.Intn(len(frag))])
			}
			contents = append(contents, b.String())
		}
		queries := []string{"", " ", "\t\n", "ls", "git commit", "a", "\x00", "a\x00b", "\xff\xfe", "caf\xc3", strings.Repeat("x", 1000), strings.Repeat("word ", 200), "...", "---", "$(rm -rf)", "how do i list files", "compress files without opening", "é ü 日本", "c1 c2 c3 c4 c5 c6 c7 c8 c9 c10 c11 c12", "generated", "backup", "bakup fle", "k3", "-", "*", "\"quoted\""}
		optSets := []database.SearchOptions{
			{}, {Limit: -5, UseNLP: true}, {Limit: math.MaxInt, UseNLP: true, UseFuzzy: true}, {Limit: math.MaxInt/2 + 1, UseNLP: true},
			{Limit: 3, UseFuzzy: true, FuzzyThreshold: -1000}, {Limit: 2, PipelineOnly: true, PipelineBoost: -1, UseNLP: true},
			{Limit: 1, Platforms: []string{"", "Windows", "\x00"}, NoCrossPlatform: true, TopTermsCap: 1, UseNLP: true}, {Limit: 10, AllPlatforms: true, TopTermsCap: 3, ContextBoosts: map[string]float64{"": -1, "ls": math.Inf(1)}},
		}
		guard := func(what string, f func()) {
			done := make(chan string, 1)
			go func() {
				defer func() {
					if rec := recover(); rec != nil {
						done <- fmt.Sprintf("%s PANICKED: %v", what, rec)
						return
					}
					done <- ""
				}()
				f()
			}()
			select {
			case m := <-done:
				if m != "" {
					fail("%s", m)
				}
			case <-time.After(60 * time.Second):
				fail("%s did not return within 60 s", what)
			}
			r.Cases++
		}
		// missing file and directory
		guard("LoadDatabase(missing)", func() {
			db, err := database.LoadDatabase(filepath.Join(root, "does-not-exist.yml"))
			if err == nil || db != nil || !stderrors.Is(err, fs.ErrNotExist) {
				fail("missing file: got db=%v err=%v, want a not-found error", db != nil, err)
			}
		})
		// ... whatever the file is called: the classification reads the error text, and the text of
		// "file not found" contains the path
		for _, name := range []string{"commands.yaml", "personal.yaml", "db.txt", "no-extension", "unmarshal.yml", "yaml: odd name.yml", "permission denied.yml", "a.YAML"} {
			guard("LoadDatabase(missing "+name+")", func() {
				_, err := database.LoadDatabase(filepath.Join(root, "missing-dir", name))
				var ae *apperrors.AppError
				if err == nil || !stderrors.Is(err, fs.ErrNotExist) || !stderrors.As(err, &ae) || !strings.HasPrefix(ae.Message, "database file not found") {
					fail("missing file %q: reported as %q (%v), want the not-found error", name, messageOf(err), err)
				}
			})
		}
		guard("LoadDatabase(directory)", func() {
			if db, err := database.LoadDatabase(root); err == nil || db != nil {
				fail("a directory loaded as a database")
			}
		})
		// well-formed lists (the empty list included) load, with every entry kept
		for wi, w := range []struct {
			content string
			n       int
		}{
			{"", 0}, {"\n\n", 0}, {"[]", 0}, {"# only a comment\n", 0}, {"---\n", 0}, {"- command: ls\n  description: list\n", 1},
			{"- command: ls\n- command: \n  description: only description\n  keywords: [a, b]\n", 2}, {"- command: ''\n  description: ''\n- command: '   '\n- description: no command at all\n", 3},
			{strings.Repeat("- command: c\n  description: d\n", 300), 300}, {"- command: a | b\n  pipeline: false\n- command: a\n  pipeline: true\n", 2},
		} {
			path := filepath.Join(root, fmt.Sprintf("w%d.yml", wi))
			os.WriteFile(path, []byte(w.content), 0o644)
			guard(fmt.Sprintf("LoadDatabase(well-formed #%d)", wi), func() {
				d, err := database.LoadDatabase(path)
				if err != nil || d == nil {
					fail("well-formed list %q does not load: %v", trunc80(w.content), err)
				} else if len(d.Commands) != w.n {
					fail("well-formed list %q loads %d entries, it has %d", trunc80(w.content), len(d.Commands), w.n)
				}
			})
			os.Remove(path)
		}
		for ci, content := range contents {
			path := filepath.Join(root, fmt.Sprintf("f%d.yml", ci))
			os.WriteFile(path, []byte(content), 0o644)
			var db *database.Database
			guard(fmt.Sprintf("LoadDatabase(content #%d %q)", ci, trunc80(content)), func() {
				d, err := database.LoadDatabase(path)
				if (d == nil) == (err == nil) {
					fail("content #%d: db=%v err=%v (exactly one must be set)", ci, d != nil, err)
				}
				if err != nil && stderrors.Is(err, fs.ErrNotExist) {
					fail("content #%d: an existing file reported as not found", ci)
				}
				if err != nil && !strings.Contains(strings.ToLower(err.Error()), "pars") && !strings.Contains(strings.ToLower(err.Error()), "yaml") {
					fail("content #%d %q: undecodable content not reported as a parse error: %v", ci, trunc80(content), err)
				}
				db = d
			})
			os.Remove(path)
			if db == nil || (ci >= 60 && ci%4 != 0) {
				continue
			}
			cdb := database.NewCachedDatabase(db)
			rec := recovery.NewSearchRecovery()
			for _, q := range queries {
				for oi, o := range optSets {
					what := fmt.Sprintf("content #%d query %q options #%d", ci, trunc80(q), oi)
					guard("SearchUniversal "+what, func() { db.SearchUniversal(q, o) })
					if oi%2 == 0 {
						guard("SearchWithOptions "+what, func() { db.SearchWithOptions(q, o) })
						guard("SearchWithPipelineOptions "+what, func() { db.SearchWithPipelineOptions(q, o) })
						guard("SearchWithFuzzy "+what, func() { db.SearchWithFuzzy(q, o) })
						guard("SearchWithNLP "+what, func() { db.SearchWithNLP(q, o) })
						guard("cached search "+what, func() { cdb.SearchWithOptionsAndCache(q, o) })
					}
				}
				guard(fmt.Sprintf("Search content #%d query %q", ci, trunc80(q)), func() { db.Search(q, -1); db.Search(q, 3) })
				guard(fmt.Sprintf("GetSuggestions content #%d query %q", ci, trunc80(q)), func() { db.GetSuggestions(q, 0); db.GetSuggestions(q, 3) })
				guard(fmt.Sprintf("recovery content #%d query %q", ci, trunc80(q)), func() { rec.RecoverWithLimit(q, nil, db, 0) })
			}
		}
		r.Falsified = bad
		r.Checked = []string{"no panic, every call returns within 60 s", "missing file -> not-found error", "undecodable content -> parse error, never a database", "well-formed lists load"}
		return r
	}
}

func trunc80(s string) string {
	if len(s) > 80 {
		return s[:80] + "..."
	}
	return s
}

func messageOf(err error) string {
	var ae *apperrors.AppError
	if stderrors.As(err, &ae) {
		return ae.Message
	}
	return "<not an application error>"
}
