package main

import (
	"fmt"

	"github.com/Vedant9500/WTF/internal/metrics"
)

func init() {
	// Bounded stand-in for "percentiles never decrease as the percentile grows" (the inductive
	// cumulative-sum argument is not within reach of the contracts, see DESIGN.md C18).
	suites["C18-percentile-monotone"] = func() result {
		r := result{Name: "C18-percentile-monotone", Bound: "real metrics.Histogram: every sorted bucket list drawn from {1,2,5} (1..3 buckets), every sequence of <= 4 observations from {0.5,1,1.5,2,3,6}, percentiles {0,1,10,25,50,75,90,99,100}; also count and exact sum"}
		bucketSets := [][]float64{{1}, {2}, {5}, {1, 2}, {1, 5}, {2, 5}, {1, 2, 5}}
		vals := []float64{0.5, 1, 1.5, 2, 3, 6}
		ps := []float64{0, 1, 10, 25, 50, 75, 90, 99, 100}
		var bad []string
		var rec func(obs []float64)
		rec = func(obs []float64) {
			for _, bs := range bucketSets {
				h := metrics.NewHistogramWithBuckets("h", append([]float64(nil), bs...), nil)
				sum := 0.0
				for _, v := range obs {
					h.Observe(v)
					sum += v
				}
				r.Cases++
				if h.Count() != int64(len(obs)) || h.Sum() != sum {
					if len(bad) < 3 {
						bad = append(bad, fmt.Sprintf("count/sum falsified by buckets=%v obs=%v", bs, obs))
					}
				}
				prev := h.Percentile(ps[0])
				for _, p := range ps[1:] {
					cur := h.Percentile(p)
					if cur < prev && len(bad) < 3 {
						bad = append(bad, fmt.Sprintf("percentile-monotone falsified by buckets=%v obs=%v p=%v (%v < %v)", bs, obs, p, cur, prev))
					}
					prev = cur
				}
			}
			if len(obs) == 4 {
				return
			}
			for _, v := range vals {
				rec(append(append([]float64(nil), obs...), v))
			}
		}
		rec(nil)
		r.Checked = []string{"percentile-monotone", "count", "sum"}
		r.Falsified = bad
		return r
	}
}
