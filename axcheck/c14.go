package main

import (
	"fmt"
	"regexp"
	"strings"
	"unicode"
	"unicode/utf8"

	"github.com/Vedant9500/WTF/internal/validation"
)

// Executable readings of the character-class predicates of
// /repo/internal/validation/zz_verif_contracts.go.
func blankWS(s string) bool {
	for _, r := range s {
		if !unicode.IsSpace(r) {
			return false
		}
	}
	return true
}
func hasMeta(s string) bool { return strings.ContainsAny(s, "<>|&;$") }
func hasCtrl(s string) bool {
	for _, r := range s {
		if unicode.IsControl(r) {
			return true
		}
	}
	return false
}
func hasCtrlNT(s string) bool {
	for _, r := range s {
		if unicode.IsControl(r) && r != '\n' && r != '\t' {
			return true
		}
	}
	return false
}
func normWS(s string) bool {
	if s != strings.TrimSpace(s) || strings.Contains(s, "  ") {
		return false
	}
	for _, r := range s {
		if unicode.IsSpace(r) && r != ' ' {
			return false
		}
	}
	return true
}

// stripCtrl: strings.Map with a closure that satisfies the PROVED contract of ValidateQuery$1
// (result == -1 <==> IsControl(r) && r != '\n' && r != '\t'; otherwise result == r).
func stripCtrl(s string) string {
	return strings.Map(func(r rune) rune {
		if unicode.IsControl(r) && r != '\n' && r != '\t' {
			return -1
		}
		return r
	}, s)
}
func fieldsJoin(s string) string { return strings.Join(strings.Fields(s), " ") }
func accept(q string) bool       { return len(q) <= 1000 && !hasMeta(q) && !blankWS(stripCtrl(q)) }
func out(q string) string        { return fieldsJoin(stripCtrl(q)) }

var c14Alphabet = []string{"a", "B", "7", " ", "\t", "\n", "\x01", "\x7f", "<", "$", "-", "é", "\u0085", "\u00a0", "\xff", "\u2028"}

func init() {
	suites["C14-axioms"] = func() result {
		r := result{Name: "C14-axioms", Bound: "all strings of <= 4 symbols over a 16-symbol alphabet (lower, upper, digit, space, tab, newline, C0 control, DEL, two metacharacters, '-', 2-byte letter, U+0085, U+00A0, invalid byte 0xFF, U+2028) plus padded boundary lengths 999..1001"}
		re := regexp.MustCompile(`[<>|&;$]`)
		bad := map[string]string{}
		chk := func(name string, ok bool, s string) {
			if !ok {
				if _, seen := bad[name]; !seen {
					bad[name] = fmt.Sprintf("%s falsified by %q", name, s)
				}
			}
		}
		names := []string{"trim-blank", "re-meta", "strip-no-ctrlnt", "strip-meta", "strip-rlen", "strip-blank", "fj-trim", "fj-norm", "fj-ctrl", "fj-meta", "fj-rlen", "fj-empty", "fj-blank", "clean-fixpoint", "fj-blen", "strip-blen-utf8", "strip-valid", "fj-valid"}
		one := func(s string) {
			chk("trim-blank", (strings.TrimSpace(s) == "") == blankWS(s), s)
			chk("re-meta", (len(re.FindAllString(s, -1)) > 0) == hasMeta(s), s)
			chk("strip-no-ctrlnt", !hasCtrlNT(stripCtrl(s)), s)
			chk("strip-meta", hasMeta(stripCtrl(s)) == hasMeta(s), s)
			chk("strip-rlen", utf8.RuneCountInString(stripCtrl(s)) <= utf8.RuneCountInString(s), s)
			chk("strip-blank", !blankWS(s) || blankWS(stripCtrl(s)), s)
			chk("fj-trim", fieldsJoin(strings.TrimSpace(s)) == fieldsJoin(s), s)
			chk("fj-norm", normWS(fieldsJoin(s)), s)
			chk("fj-ctrl", hasCtrlNT(s) || !hasCtrl(fieldsJoin(s)), s)
			chk("fj-meta", hasMeta(fieldsJoin(s)) == hasMeta(s), s)
			chk("fj-rlen", utf8.RuneCountInString(fieldsJoin(s)) <= utf8.RuneCountInString(s), s)
			chk("fj-empty", (fieldsJoin(s) == "") == blankWS(s), s)
			chk("fj-blank", blankWS(fieldsJoin(s)) == blankWS(s), s)
			chk("clean-fixpoint", !(normWS(s) && !hasCtrl(s) && utf8.ValidString(s)) || (stripCtrl(s) == s && fieldsJoin(s) == s), s)
			chk("strip-valid", utf8.ValidString(stripCtrl(s)), s)
			chk("fj-valid", !utf8.ValidString(s) || utf8.ValidString(fieldsJoin(s)), s)
			chk("fj-blen", len(fieldsJoin(s)) <= len(s), s)
			chk("strip-blen-utf8", !utf8.ValidString(s) || len(stripCtrl(s)) <= len(s), s)
		}
		r.Cases = enumStrings(c14Alphabet, 4, one)
		for _, pad := range []int{995, 996, 997, 998, 999} {
			for _, a := range c14Alphabet {
				enumStrings(c14Alphabet, 1, func(t string) { one(strings.Repeat(a, pad) + t + t); r.Cases++ })
			}
		}
		r.Checked = names
		for _, n := range names {
			if m, ok := bad[n]; ok {
				r.Falsified = append(r.Falsified, m)
			}
		}
		return r
	}
	// The real ValidateQuery against its three postconditions (accept-iff, output, clean-output).
	suites["C14-validatequery"] = func() result {
		r := result{Name: "C14-validatequery", Bound: "real validation.ValidateQuery on all strings of <= 4 symbols over the same alphabet plus boundary lengths; oracle = the contract's accept/out/clean-output"}
		bad := map[string]string{}
		one := func(s string) {
			got, err := validation.ValidateQuery(s)
			if (err == nil) != accept(s) {
				bad["accept-iff"] = fmt.Sprintf("accept-iff falsified by %q", s)
			}
			if err == nil {
				if got != out(s) {
					bad["output"] = fmt.Sprintf("output falsified by %q", s)
				}
				if hasCtrl(got) || !normWS(got) || hasMeta(got) || utf8.RuneCountInString(got) > utf8.RuneCountInString(s) {
					bad["clean-output"] = fmt.Sprintf("clean-output falsified by %q", s)
				}
			}
		}
		r.Cases = enumStrings(c14Alphabet, 4, one)
		for _, pad := range []int{997, 998, 999, 1000, 1001} {
			for _, a := range c14Alphabet {
				one(strings.Repeat(a, pad))
				r.Cases++
			}
		}
		r.Checked = []string{"accept-iff", "output", "clean-output"}
		for _, m := range bad {
			r.Falsified = append(r.Falsified, m)
		}
		return r
	}
}
