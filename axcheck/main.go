// axcheck: bounded validation of the ASSUMED axioms used by the proofs, against the real
// library / third-party code, over enumerated domains. A falsified axiom is an engine error.
// Output: one JSON object on stdout.
package main

import (
	"encoding/json"
	"fmt"
	"os"
)

type result struct {
	Name      string   `json:"name"`
	Bound     string   `json:"bound"`
	Cases     int      `json:"cases"`
	Falsified []string `json:"falsified"`
	Checked   []string `json:"checked"`
}

var suites = map[string]func() result{}

// scale multiplies the number of random cases of the differential suites (thorough tier).
var scale = func() int {
	if os.Getenv("AXCHECK_TIER") == "thorough" {
		return 6
	}
	return 1
}()

func main() {
	if len(os.Args) < 2 {
		fmt.Println("usage: axcheck <suite>")
		os.Exit(2)
	}
	f, ok := suites[os.Args[1]]
	if !ok {
		fmt.Println("unknown suite", os.Args[1])
		os.Exit(2)
	}
	r := func() (r result) {
		// a panic of the code under check is a falsification, not a harness failure
		defer func() {
			if rec := recover(); rec != nil {
				r = result{Name: os.Args[1], Bound: "aborted by a panic", Falsified: []string{fmt.Sprintf("panic in the code under check: %v", rec)}}
			}
		}()
		return f()
	}()
	b, _ := json.Marshal(r)
	fmt.Println(string(b))
	if len(r.Falsified) > 0 {
		os.Exit(1)
	}
}

// enumerate all strings of length 0..maxLen over the alphabet (each symbol may be multi-byte).
func enumStrings(alpha []string, maxLen int, f func(string)) int {
	n := 0
	var rec func(prefix string, depth int)
	rec = func(prefix string, depth int) {
		f(prefix)
		n++
		if depth == maxLen {
			return
		}
		for _, a := range alpha {
			rec(prefix+a, depth+1)
		}
	}
	rec("", 0)
	return n
}
