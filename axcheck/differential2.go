package main

// More bounded differential suites on the real code: the cache against fresh searches (C05, and
// the cached path of C01 / C04), the shape of every search entry point's answer (C01), and the
// history views against a model (C16).

import (
	"encoding/json"
	"fmt"
	"math"
	"math/rand"
	"os"
	"path/filepath"
	"strings"
	"time"

	"github.com/Vedant9500/WTF/internal/database"
	"github.com/Vedant9500/WTF/internal/history"
	"github.com/Vedant9500/WTF/internal/recovery"
)

func cloneCmds(c []database.Command) []database.Command { return append([]database.Command(nil), c...) }

func platformDB(rng *rand.Rand, n int) []database.Command {
	db := diffDB(rng, n)
	plats := [][]string{nil, {"linux"}, {"windows"}, {"macos"}, {"cross-platform"}, {"Linux", "darwin"}, {"PowerShell"}, {"windows", "cross-platform"}}
	for i := range db.Commands {
		db.Commands[i].Platform = plats[rng.Intn(len(plats))]
		db.Commands[i].Pipeline = rng.Intn(3) == 0
		if rng.Intn(6) == 0 {
			db.Commands[i].Command = []string{"git", "docker", "curl", "find"}[rng.Intn(4)] + " " + db.Commands[i].Command
			db.Commands[i].CommandLower = strings.ToLower(db.Commands[i].Command)
		}
	}
	return db.Commands
}

func randOptions(rng *rand.Rand) database.SearchOptions {
	o := database.SearchOptions{Limit: []int{0, -1, 1, 2, 5, 10, 50}[rng.Intn(7)]}
	o.UseNLP = rng.Intn(2) == 0
	o.UseFuzzy = rng.Intn(2) == 0
	if rng.Intn(3) == 0 {
		o.FuzzyThreshold = []int{-30, -100, 20}[rng.Intn(3)]
	}
	o.PipelineOnly = rng.Intn(5) == 0
	o.AllPlatforms = rng.Intn(3) == 0
	o.NoCrossPlatform = rng.Intn(2) == 0
	if rng.Intn(3) == 0 {
		o.Platforms = [][]string{{"linux"}, {"windows"}, {"macos", "linux"}}[rng.Intn(3)]
	}
	if rng.Intn(4) == 0 {
		o.TopTermsCap = 1 + rng.Intn(6)
	}
	if rng.Intn(4) == 0 {
		o.ContextBoosts = map[string]float64{diffWords[rng.Intn(len(diffWords))]: 1.5}
	}
	if rng.Intn(6) == 0 {
		o.PipelineBoost = []float64{1.5, -2, 0.5}[rng.Intn(3)]
	}
	return o
}

func shapeProblem(db *database.Database, res []database.SearchResult, limit int, what string) string {
	eff := limit
	if eff <= 0 {
		eff = -1 // default limits differ per entry point; checked by the caller when known
	}
	if eff > 0 && len(res) > eff {
		return fmt.Sprintf("%s: %d results for limit %d", what, len(res), limit)
	}
	seen := map[*database.Command]bool{}
	for i, r := range res {
		ok := false
		if len(db.Commands) > 0 && r.Command != nil {
			for j := range db.Commands {
				if r.Command == &db.Commands[j] {
					ok = true
					break
				}
			}
		}
		if !ok {
			return fmt.Sprintf("%s: result %d is not an entry of the searched database", what, i)
		}
		if seen[r.Command] {
			return fmt.Sprintf("%s: entry %q appears twice", what, r.Command.Command)
		}
		seen[r.Command] = true
		if math.IsNaN(r.Score) || math.IsInf(r.Score, 0) || r.Score < 0 {
			return fmt.Sprintf("%s: score %v of %q", what, r.Score, r.Command.Command)
		}
		if i > 0 && res[i-1].Score < r.Score {
			return fmt.Sprintf("%s: scores not in non-increasing order at position %d", what, i)
		}
	}
	return ""
}

func init() {
	suites["C05-cache-diff"] = func() result {
		r := result{Name: "C05-cache-diff", Bound: "real CachedDatabase / MonitoredDatabase on 150 seeded random databases with platform / pipeline tags, 40 requests each drawn from 6 base queries with case / blank / tab variants and random option sets (limits <= 0 and positive, NLP, fuzzy, thresholds, pipeline-only, platform switches, TopTermsCap, boosts), interleaved with InvalidateCache, EnableCache, UpdateDatabase and expiry sweeps: every answer against a fresh uncached SearchUniversal on the same commands"}
		rng := rand.New(rand.NewSource(5))
		var bad []string
		fail := func(f string, a ...interface{}) {
			if len(bad) < 6 {
				bad = append(bad, fmt.Sprintf(f, a...))
			}
		}
		for it := 0; it < 150*scale; it++ {
			cmds := platformDB(rng, 5+rng.Intn(25))
			cdb := database.NewCachedDatabase(&database.Database{Commands: cloneCmds(cmds)})
			mdb := database.NewMonitoredDatabase(&database.Database{Commands: cloneCmds(cmds)})
			base := []string{diffQuery(rng, 3), diffQuery(rng, 2), "gt st", "comprss fles", diffQuery(rng, 5), "dokcer"}
			for step := 0; step < 40; step++ {
				q := base[rng.Intn(len(base))]
				switch rng.Intn(6) {
				case 0:
					q = strings.ToUpper(q)
				case 1:
					q = "  " + q + " "
				case 2:
					q = strings.ReplaceAll(q, " ", "  ")
				case 3:
					q = strings.ReplaceAll(q, " ", "\t")
				}
				o := randOptions(rng)
				switch rng.Intn(14) {
				case 0:
					cdb.InvalidateCache()
				case 1:
					on := rng.Intn(2) == 0
					cdb.EnableCache(on)
				case 2:
					cmds = platformDB(rng, rng.Intn(20))
					cdb.UpdateDatabase(cloneCmds(cmds))
					mdb.LoadDatabaseWithMonitoring(cloneCmds(cmds))
				case 3:
					cdb.CleanupExpiredCache()
				}
				// each request is followed by near-duplicates: the same options with another spelling
				// of the query, and the same query with exactly one option changed - the requests a
				// defective key would file under one entry
				type req struct {
					q string
					o database.SearchOptions
				}
				reqs := []req{{q, o}}
				bq := strings.TrimSpace(strings.ToLower(strings.Join(strings.Fields(q), " ")))
				for _, v := range []string{bq, strings.ToUpper(bq), " " + bq, strings.ReplaceAll(bq, " ", "  "), strings.ReplaceAll(bq, " ", "\t")} {
					if v != q && rng.Intn(2) == 0 {
						reqs = append(reqs, req{v, o})
					}
				}
				for k := 0; k < 3; k++ {
					o2 := o
					switch rng.Intn(9) {
					case 0:
						o2.NoCrossPlatform = !o.NoCrossPlatform
					case 1:
						o2.AllPlatforms = !o.AllPlatforms
					case 2:
						o2.PipelineOnly = !o.PipelineOnly
					case 3:
						o2.UseNLP = !o.UseNLP
					case 4:
						o2.UseFuzzy = !o.UseFuzzy
					case 5:
						o2.Limit = []int{0, -3, 5, 10, 3}[rng.Intn(5)]
					case 6:
						o2.Platforms = [][]string{nil, {"windows"}, {"linux"}}[rng.Intn(3)]
					case 7:
						o2.FuzzyThreshold = []int{0, -30, -200}[rng.Intn(3)]
					case 8:
						o2.TopTermsCap = rng.Intn(5)
					}
					reqs = append(reqs, req{q, o2})
				}
				for _, rq := range reqs {
					q, o := rq.q, rq.o
					fresh := (&database.Database{Commands: cloneCmds(cmds)}).SearchUniversal(q, o)
					r.Cases++
					for wi, got := range [][]database.SearchResult{cdb.SearchWithOptionsAndCache(q, o), mdb.SearchWithOptionsAndMonitoring(q, o)} {
						who := []string{"cached", "monitored"}[wi]
						if len(got) != len(fresh) {
							fail("%s search %q %+v (step %d): %d results, a fresh search gives %d", who, q, o, step, len(got), len(fresh))
							continue
						}
						for i := range got {
							if got[i].Command.Command != fresh[i].Command.Command || got[i].Score != fresh[i].Score {
								fail("%s search %q %+v (step %d): position %d is %q (%v), a fresh search gives %q (%v)", who, q, o, step, i, got[i].Command.Command, got[i].Score, fresh[i].Command.Command, fresh[i].Score)
								break
							}
						}
					}
				}
			}
		}
		r.Falsified = bad
		r.Checked = []string{"every cached / monitored answer equals a fresh uncached search on the current commands (same commands, same scores, same order)"}
		return r
	}

	suites["C01-shape"] = func() result {
		r := result{Name: "C01-shape", Bound: "real search entry points (SearchUniversal, Search, SearchWithOptions, SearchWithPipelineOptions, SearchWithFuzzy, SearchWithNLP, cached, monitored, recovery) on 200 seeded random databases (empty, one entry, tie-heavy, tagged) x 15 queries x random option sets: at most the limit, real entries, no duplicates, finite non-negative scores, non-increasing order"}
		rng := rand.New(rand.NewSource(1))
		var bad []string
		fail := func(m string) {
			if m != "" && len(bad) < 6 {
				bad = append(bad, m)
			}
		}
		for it := 0; it < 200*scale; it++ {
			var cmds []database.Command
			switch it % 5 {
			case 0:
				cmds = nil
			case 1:
				cmds = platformDB(rng, 1)
			case 2:
				for i := 0; i < 15; i++ {
					cmds = append(cmds, database.Command{Command: fmt.Sprintf("tool%02d", i), Description: "compress files", Keywords: []string{"compress"}})
				}
			default:
				cmds = platformDB(rng, 3+rng.Intn(30))
			}
			db := &database.Database{Commands: cloneCmds(cmds)}
			cdb := database.NewCachedDatabase(&database.Database{Commands: cloneCmds(cmds)})
			rec := recovery.NewSearchRecovery()
			for qi := 0; qi < 15; qi++ {
				q := diffQuery(rng, 4)
				switch qi % 5 {
				case 1:
					q = "compress files"
				case 2:
					q = []string{"comprss", "fles", "gt", "plz docker container", "..."}[rng.Intn(5)]
				case 3:
					q = "plz " + diffQuery(rng, 3)
				}
				o := randOptions(rng)
				what := fmt.Sprintf("db#%d query %q %+v", it, q, o)
				r.Cases++
				res := db.SearchUniversal(q, o)
				fail(shapeProblem(db, res, o.Limit, "SearchUniversal "+what))
				if o.Limit <= 0 && len(res) > 10 {
					fail(fmt.Sprintf("SearchUniversal %s: %d results for the default limit", what, len(res)))
				}
				fail(shapeProblem(db, db.Search(q, o.Limit), o.Limit, "Search "+what))
				fail(shapeProblem(db, db.SearchWithOptions(q, o), o.Limit, "SearchWithOptions "+what))
				fail(shapeProblem(db, db.SearchWithPipelineOptions(q, o), o.Limit, "SearchWithPipelineOptions "+what))
				fail(shapeProblem(db, db.SearchWithFuzzy(q, o), o.Limit, "SearchWithFuzzy "+what))
				fail(shapeProblem(cdb.Database, cdb.SearchWithOptionsAndCache(q, o), o.Limit, "cached "+what))
				fail(shapeProblem(cdb.Database, cdb.SearchWithOptionsAndCache(q, o), o.Limit, "cached (repeat) "+what))
				if len(db.Commands) > 0 {
					rr, _ := rec.RecoverWithLimit(q, nil, db, o.Limit)
					fail(shapeProblem(db, rr, o.Limit, "recovery "+what))
					if o.Limit <= 0 && len(rr) > 10 {
						fail(fmt.Sprintf("recovery %s: %d results for the default limit", what, len(rr)))
					}
				}
			}
		}
		r.Falsified = bad
		r.Checked = []string{"len <= limit (default when not positive)", "every result is an entry of the searched database", "no entry twice", "scores finite and non-negative", "non-increasing score order"}
		return r
	}

	suites["C16-history"] = func() result {
		r := result{Name: "C16-history", Bound: "real SearchHistory on 400 seeded random operation sequences (AddEntry with repeats, Save / Load through files including files with equal, zero and decreasing timestamps, more entries than max_size, odd max_size; Clear) with capacities 1..40 and 16 distinct queries: entries against a model list, GetRecentQueries / GetTopQueries / GetStats against recomputation"}
		rng := rand.New(rand.NewSource(16))
		var bad []string
		fail := func(f string, a ...interface{}) {
			if len(bad) < 6 {
				bad = append(bad, fmt.Sprintf(f, a...))
			}
		}
		root, err := os.MkdirTemp("/var/tmp", "c16-")
		if err != nil {
			r.Falsified = []string{"cannot create scratch directory"}
			return r
		}
		defer os.RemoveAll(root)
		qs := []string{"git status", "ls", "docker ps", "tar", "find files", "grep text", "q7", "q8", "q9", "q10", "q11", "q12", "q13", "q14", "q15", "q16"}
		for it := 0; it < 400*scale; it++ {
			capN := 1 + rng.Intn(12)
			if it%4 == 3 {
				capN = 13 + rng.Intn(28) // room for more than ten distinct queries
			}
			path := filepath.Join(root, fmt.Sprintf("h%d.json", it))
			h := history.NewSearchHistory(path, capN)
			var model []string // queries, oldest first
			var modelN []int   // the result count recorded with each entry
			check := func(when string) {
				if len(h.Entries) != len(model) || len(h.Entries) > h.MaxSize {
					fail("%s: %d entries (max %d), model has %d", when, len(h.Entries), h.MaxSize, len(model))
					return
				}
				for i := range model {
					if h.Entries[i].Query != model[i] {
						fail("%s: entry %d is %q, expected %q", when, i, h.Entries[i].Query, model[i])
						return
					}
					if len(modelN) == len(model) && h.Entries[i].ResultsCount != modelN[i] {
						fail("%s: entry %d (%q) carries results count %d, the search recorded %d", when, i, model[i], h.Entries[i].ResultsCount, modelN[i])
						return
					}
				}
				// recent: distinct queries, most recent first
				for _, lim := range []int{0, 1, 3, 50} {
					eff := lim
					if eff <= 0 {
						eff = 10
					}
					var want []string
					seen := map[string]bool{}
					for i := len(model) - 1; i >= 0 && len(want) < eff; i-- {
						if !seen[model[i]] {
							seen[model[i]] = true
							want = append(want, model[i])
						}
					}
					got := h.GetRecentQueries(lim)
					if strings.Join(got, "\x00") != strings.Join(want, "\x00") {
						fail("%s: GetRecentQueries(%d) = %q, expected %q (entries %q)", when, lim, got, want, model)
						return
					}
				}
				// top: counts equal the real frequencies, ordered by count, sum over all = entries
				freq := map[string]int{}
				for _, q := range model {
					freq[q]++
				}
				top := h.GetTopQueries(100)
				sum := 0
				seenQ := map[string]bool{}
				for i, t := range top {
					if freq[t.Query] != t.Count || seenQ[t.Query] {
						fail("%s: GetTopQueries reports %q x%d, real frequency %d (entries %q)", when, t.Query, t.Count, freq[t.Query], model)
						return
					}
					seenQ[t.Query] = true
					sum += t.Count
					if i > 0 && top[i-1].Count < t.Count {
						fail("%s: GetTopQueries not ordered by count", when)
						return
					}
				}
				if sum != len(model) || len(top) != len(freq) {
					fail("%s: GetTopQueries covers %d of %d entries (%d of %d queries)", when, sum, len(model), len(top), len(freq))
					return
				}
				if lim := h.GetTopQueries(2); len(lim) > 2 {
					fail("%s: GetTopQueries(2) returned %d rows", when, len(lim))
				}
				if st := h.GetStats(); st.TotalSearches != len(model) || st.UniqueQueries != len(freq) {
					fail("%s: GetStats = %+v, expected %d searches, %d unique", when, st, len(model), len(freq))
				}
			}
			steps := 5 + rng.Intn(30)
			for s := 0; s < steps; s++ {
				r.Cases++
				switch rng.Intn(10) {
				case 0: // save and reload
					if err := h.Save(); err != nil {
						fail("Save failed: %v", err)
					}
					h2 := history.NewSearchHistory(path, 100)
					if err := h2.Load(); err != nil {
						fail("Load of a saved history failed: %v", err)
					}
					h = h2
					check("after save/load")
				case 1: // load a hand-written file: odd timestamps, too many entries, odd max_size
					n := rng.Intn(15)
					ms := []int{-1, 0, 1, 3, 8, 50}[rng.Intn(6)]
					type ent struct {
						Query     string    `json:"query"`
						Timestamp time.Time `json:"timestamp"`
					}
					var es []ent
					var fq []string
					t0 := time.Date(2024, 1, 1, 0, 0, 0, 0, time.UTC)
					for i := 0; i < n; i++ {
						ts := t0
						switch rng.Intn(3) {
						case 0:
							ts = time.Time{}
						case 1:
							ts = t0.Add(-time.Duration(i) * time.Hour)
						}
						q := qs[rng.Intn(len(qs))]
						es = append(es, ent{q, ts})
						fq = append(fq, q)
					}
					b, _ := json.Marshal(map[string]interface{}{"entries": es, "max_size": ms})
					os.WriteFile(path, b, 0o644)
					h = history.NewSearchHistory(path, capN)
					if err := h.Load(); err != nil {
						fail("Load failed: %v", err)
					}
					eff := ms
					if eff <= 0 {
						eff = 100
					}
					if len(fq) > eff {
						fq = fq[len(fq)-eff:]
					}
					model = fq
					modelN = make([]int, len(model))
					if h.MaxSize != eff {
						fail("after loading max_size %d the capacity is %d, expected %d", ms, h.MaxSize, eff)
					}
					check("after loading a file")
				case 2:
					if rng.Intn(4) == 0 {
						h.Clear()
						model, modelN = nil, nil
						check("after Clear")
					}
				default:
					q := qs[rng.Intn(len(qs))]
					if len(model) > 0 && rng.Intn(4) == 0 {
						q = model[len(model)-1]
					}
					nres := rng.Intn(50)
					h.AddEntry(q, nres, "", time.Millisecond)
					if len(model) > 0 && model[len(model)-1] == q {
						// repeated query: the last entry is updated
						modelN[len(modelN)-1] = nres
					} else {
						model = append(model, q)
						modelN = append(modelN, nres)
						if len(model) > h.MaxSize {
							modelN = modelN[len(model)-h.MaxSize:]
							model = model[len(model)-h.MaxSize:]
						}
					}
					check(fmt.Sprintf("after AddEntry(%q)", q))
				}
			}
		}
		r.Falsified = bad
		r.Checked = []string{"entries = model (bounded by capacity, newest kept, repeat updates the last entry)", "recent view = distinct queries, most recent first", "top view: real frequencies, ordered, summing to the entry count", "stats agree", "save / load round trip; loaded files re-normalised"}
		return r
	}
}
