package main

import (
	"bytes"
	"encoding/binary"
	"fmt"
	"io"
	"log"
	"math"
	"math/rand"
	"os"
	"path/filepath"

	"github.com/Vedant9500/WTF/internal/constants"
	"github.com/Vedant9500/WTF/internal/database"
	"github.com/Vedant9500/WTF/internal/embedding"
)

func init() {
	// Cosine similarity: symmetric and within [-1,1] — bounded stand-in (the inductive
	// Cauchy-Schwarz argument and bit-level symmetry are out of reach of the contracts).
	suites["C19-cosine"] = func() result {
		r := result{Name: "C19-cosine", Bound: "real embedding.CosineSimilarity: all vector pairs of dimension 1..3 over {-2,-1,0,0.5,1,3} 20,000 seeded random 100-d pairs, and 8,000 parallel / identical pairs with components from 1e-45 to 3e38, 600 pairs with NaN / infinite components; the range is exact (no tolerance), exact equality for symmetry"}
		vals := []float32{-2, -1, 0, 0.5, 1, 3}
		var bad []string
		check := func(a, b []float32) {
			defer func() {
				if rec := recover(); rec != nil && len(bad) < 3 {
					bad = append(bad, fmt.Sprintf("no-panic falsified by %v %v: %v", a, b, rec))
				}
			}()
			r.Cases++
			x, y := embedding.CosineSimilarity(a, b), embedding.CosineSimilarity(b, a)
			if x != y && !(math.IsNaN(x) && math.IsNaN(y)) && len(bad) < 3 {
				bad = append(bad, fmt.Sprintf("symmetric falsified by %.160v %.160v (%v vs %v)", fmt.Sprint(a), fmt.Sprint(b), x, y))
			}
			if (x < -1 || x > 1 || math.IsNaN(x)) && len(bad) < 3 {
				bad = append(bad, fmt.Sprintf("range falsified by %.160v %.160v (%v)", fmt.Sprint(a), fmt.Sprint(b), x))
			}
		}
		var vecs [][]float32
		for d := 1; d <= 3; d++ {
			var rec func(v []float32)
			rec = func(v []float32) {
				if len(v) == d {
					vecs = append(vecs, append([]float32(nil), v...))
					return
				}
				for _, x := range vals {
					rec(append(v, x))
				}
			}
			rec(nil)
		}
		for _, a := range vecs {
			for _, b := range vecs {
				check(a, b) // includes mismatched dimensions
			}
		}
		rng := rand.New(rand.NewSource(19))
		for i := 0; i < 20000; i++ {
			a, b := make([]float32, 100), make([]float32, 100)
			for k := range a {
				a[k] = float32(rng.NormFloat64())
				b[k] = float32(rng.NormFloat64()) * float32(i%7)
			}
			check(a, b)
		}
		// parallel vectors (cosine exactly at the bound) and components at the ends of the float32
		// range: accumulating in anything narrower than float64 overshoots 1 or overflows to NaN
		for i := 0; i < 4000; i++ {
			a, b := make([]float32, 100), make([]float32, 100)
			scaleA := []float32{1, 1e19, 3e38, 1e-22, 1e-38, 1e-45, 7}[i%7]
			scaleB := []float32{1, 2, 1e19, 1e-22, -1, 1e-30, 3e38}[(i/7)%7]
			for k := range a {
				x := float32(rng.Float64()*2 - 1) // |x| <= 1: the products below stay finite in float32
				if i%3 == 0 {
					x = float32(1+k%3) / 3 // few distinct magnitudes
				}
				a[k] = x * scaleA
				b[k] = x * scaleB
			}
			if i%11 == 0 {
				a, b = a[:1+i%5], b[:1+i%5]
			}
			check(a, b)
			check(a, a)
		}
		// non-finite components (a damaged file): still a number in [-1, 1]
		nf := []float32{float32(math.NaN()), float32(math.Inf(1)), float32(math.Inf(-1))}
		for i := 0; i < 600; i++ {
			a, b := make([]float32, 1+i%9), make([]float32, 1+i%9)
			for k := range a {
				a[k], b[k] = float32(rng.NormFloat64()), float32(rng.NormFloat64())
			}
			a[rng.Intn(len(a))] = nf[i%3]
			if i%2 == 0 {
				b[rng.Intn(len(b))] = nf[(i/3)%3]
			}
			check(a, b)
		}
		r.Checked = []string{"symmetric", "range"}
		r.Falsified = bad
		return r
	}
}

func init() {
	// C19 (bounded): with embedding files of any content attached, the semantic stage only raises
	// scores, by at most the documented factor, and the list stays ordered - end to end through
	// the real loaders and SearchUniversal. Complements the proof, in which float64 is the reals
	// (no NaN, no infinity): damaged records hold exactly those.
	suites["C19-semantic"] = func() result {
		r := result{Name: "C19-semantic", Bound: "real LoadEmbeddings + SearchUniversal on a 12-command database: 40 seeded embedding-file pairs (healthy, NaN / +-Inf / huge / zero components, fewer or more records than commands, zero word vectors) x 10 queries x 3 option sets, each compared with the same search on a copy of the database without embeddings"}
		var bad []string
		fail := func(f string, a ...interface{}) {
			if len(bad) < 5 {
				bad = append(bad, fmt.Sprintf(f, a...))
			}
		}
		defer func() {
			if rec := recover(); rec != nil {
				bad = append(bad, fmt.Sprintf("panic: %v", rec))
				r.Falsified = bad
			}
		}()
		words := []string{"compress", "archive", "list", "files", "search", "text", "git", "commit", "docker", "run", "disk", "usage", "network", "download"}
		var cmds []database.Command
		for i := 0; i < 12; i++ {
			a, b, c := words[i%len(words)], words[(i*3+1)%len(words)], words[(i*5+2)%len(words)]
			cmds = append(cmds, database.Command{Command: fmt.Sprintf("%s-%s %d", a, b, i), Description: fmt.Sprintf("%s the %s of %s", a, b, c), Keywords: []string{a, c}})
		}
		queries := []string{"compress files", "git commit", "search text", "disk usage", "docker run", "download", "list archive network", "text", "run git docker disk", "commit files usage"}
		optSets := []database.SearchOptions{{Limit: 50, AllPlatforms: true}, {Limit: 50, AllPlatforms: true, UseNLP: true}, {Limit: 3, AllPlatforms: true}}
		root, err := os.MkdirTemp("/var/tmp", "c19-")
		if err != nil {
			r.Falsified = []string{"cannot create scratch directory"}
			return r
		}
		defer os.RemoveAll(root)
		wd, _ := os.Getwd()
		defer os.Chdir(wd)
		os.Chdir(root)
		log.SetOutput(io.Discard)
		rng := rand.New(rand.NewSource(1905))
		special := []float32{float32(math.NaN()), float32(math.Inf(1)), float32(math.Inf(-1)), math.MaxFloat32, -math.MaxFloat32, 0, 1e-38}
		const dim = 100
		raised := 0
		for fi := 0; fi < 40*scale; fi++ {
			var glove, ce bytes.Buffer
			binary.Write(&glove, binary.LittleEndian, uint32(len(words)))
			for wi, w := range words {
				binary.Write(&glove, binary.LittleEndian, uint16(len(w)))
				glove.WriteString(w)
				v := make([]float32, dim)
				for k := range v {
					v[k] = float32(rng.NormFloat64())
				}
				if fi%8 == 7 && wi%2 == 0 {
					v = make([]float32, dim) // zero word vector
				}
				if fi%10 == 9 && wi == 0 {
					v[3] = special[rng.Intn(len(special))]
				}
				binary.Write(&glove, binary.LittleEndian, v)
			}
			n := len(cmds)
			switch fi % 6 {
			case 4:
				n = len(cmds) - 3
			case 5:
				n = len(cmds) + 2
			}
			binary.Write(&ce, binary.LittleEndian, uint32(n))
			binary.Write(&ce, binary.LittleEndian, uint32(dim))
			for i := 0; i < n; i++ {
				v := make([]float32, dim)
				for k := range v {
					v[k] = float32(rng.NormFloat64())
				}
				if fi%2 == 1 && rng.Intn(2) == 0 {
					for j := 0; j < 1+rng.Intn(3); j++ {
						v[rng.Intn(dim)] = special[rng.Intn(len(special))]
					}
				}
				if fi%5 == 3 && i%4 == 0 {
					v = make([]float32, dim)
				}
				binary.Write(&ce, binary.LittleEndian, v)
			}
			os.WriteFile(filepath.Join(root, "glove.bin"), glove.Bytes(), 0o600)
			os.WriteFile(filepath.Join(root, "cmd_embeddings.bin"), ce.Bytes(), 0o600)
			with := &database.Database{Commands: append([]database.Command(nil), cmds...)}
			with.BuildUniversalIndex()
			if err := with.LoadEmbeddings(); err != nil {
				continue // a rejected file: the search then runs without embeddings (covered by the proof)
			}
			for qi, q := range queries {
				for oi, o := range optSets {
					r.Cases++
					plain := &database.Database{Commands: append([]database.Command(nil), cmds...)}
					plain.BuildUniversalIndex()
					base := plain.SearchUniversal(q, database.SearchOptions{Limit: 50, AllPlatforms: true, UseNLP: o.UseNLP})
					baseScore := map[string]float64{}
					for _, b := range base {
						baseScore[b.Command.Command] = b.Score
					}
					got := with.SearchUniversal(q, o)
					what := fmt.Sprintf("file pair #%d, query %q, options #%d", fi, queries[qi], oi)
					for i, g := range got {
						old, known := baseScore[g.Command.Command]
						if known && g.Score > old {
							raised++
						}
						switch {
						case !known:
							fail("%s: %q is returned only when embeddings are attached", what, g.Command.Command)
						case math.IsNaN(g.Score) || math.IsInf(g.Score, 0):
							fail("%s: score of %q is %v (was %v without embeddings)", what, g.Command.Command, g.Score, old)
						case g.Score < old:
							fail("%s: score of %q lowered from %v to %v", what, g.Command.Command, old, g.Score)
						case g.Score > old*(1+constants.SemanticAlpha)*(1+1e-6):
							fail("%s: score of %q raised from %v to %v, more than the factor %v", what, g.Command.Command, old, g.Score, 1+constants.SemanticAlpha)
						}
						if i > 0 && !(got[i-1].Score >= g.Score) {
							fail("%s: results not ordered at position %d (%v then %v)", what, i, got[i-1].Score, g.Score)
						}
					}
					if o.Limit >= 50 && len(got) != len(base) {
						fail("%s: %d results with embeddings, %d without", what, len(got), len(base))
					}
				}
			}
		}
		if raised == 0 && len(bad) == 0 {
			bad = append(bad, "vacuous: no score was raised in any case - the semantic stage never ran")
		}
		r.Checked = []string{fmt.Sprintf("every score finite, not lowered, raised by at most 1+SemanticAlpha (%d scores were raised)", raised), "list ordered", "same candidates with and without embeddings"}
		r.Falsified = bad
		return r
	}
}
