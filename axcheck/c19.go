package main

import (
	"fmt"
	"math"
	"math/rand"

	"github.com/Vedant9500/WTF/internal/embedding"
)

func init() {
	// Cosine similarity: symmetric and within [-1,1] — bounded stand-in (the inductive
	// Cauchy-Schwarz argument and bit-level symmetry are out of reach of the contracts).
	suites["C19-cosine"] = func() result {
		r := result{Name: "C19-cosine", Bound: "real embedding.CosineSimilarity: all vector pairs of dimension 1..3 over {-2,-1,0,0.5,1,3} and 20,000 seeded random 100-d pairs; tolerance 1e-12 on the range, exact equality for symmetry"}
		vals := []float32{-2, -1, 0, 0.5, 1, 3}
		var bad []string
		check := func(a, b []float32) {
			defer func() {
				if rec := recover(); rec != nil && len(bad) < 3 {
					bad = append(bad, fmt.Sprintf("no-panic falsified by %v %v: %v", a, b, rec))
				}
			}()
			r.Cases++
			x, y := embedding.CosineSimilarity(a, b), embedding.CosineSimilarity(b, a)
			if x != y && len(bad) < 3 {
				bad = append(bad, fmt.Sprintf("symmetric falsified by %v %v (%v vs %v)", a, b, x, y))
			}
			if (x < -1-1e-12 || x > 1+1e-12 || math.IsNaN(x)) && len(bad) < 3 {
				bad = append(bad, fmt.Sprintf("range falsified by %v %v (%v)", a, b, x))
			}
		}
		var vecs [][]float32
		for d := 1; d <= 3; d++ {
			var rec func(v []float32)
			rec = func(v []float32) {
				if len(v) == d {
					vecs = append(vecs, append([]float32(nil), v...))
					return
				}
				for _, x := range vals {
					rec(append(v, x))
				}
			}
			rec(nil)
		}
		for _, a := range vecs {
			for _, b := range vecs {
				check(a, b) // includes mismatched dimensions
			}
		}
		rng := rand.New(rand.NewSource(19))
		for i := 0; i < 20000; i++ {
			a, b := make([]float32, 100), make([]float32, 100)
			for k := range a {
				a[k] = float32(rng.NormFloat64())
				b[k] = float32(rng.NormFloat64()) * float32(i%7)
			}
			check(a, b)
		}
		r.Checked = []string{"symmetric", "range"}
		r.Falsified = bad
		return r
	}
}
