package main

import (
	"encoding/json"
	"flag"
	"fmt"
	"os"
	"path/filepath"
	"sort"
	"strings"
	"time"
)

func main() {
	if len(os.Args) < 2 {
		fmt.Fprintln(os.Stderr, "usage: govc verify|check ...")
		os.Exit(2)
	}
	switch os.Args[1] {
	case "verify":
		cmdVerify(os.Args[2:])
	case "check":
		cmdCheck(os.Args[2:])
	case "mapranges":
		cmdMapRanges(os.Args[2:])
	case "sweep":
		cmdSweep(os.Args[2:])
	case "locals":
		cmdLocals(os.Args[2:])
	default:
		fmt.Fprintln(os.Stderr, "unknown command", os.Args[1])
		os.Exit(2)
	}
}

func cmdVerify(args []string) {
	fs := flag.NewFlagSet("verify", flag.ExitOnError)
	repo := fs.String("repo", "/repo", "repository")
	timeout := fs.Int("t", 10, "solver timeout (s)")
	keep := fs.String("keep", "", "directory to keep queries in")
	only := fs.String("only", "", "substring filter on obligation names")
	uncon := fs.Bool("unconstrained", false, "ignore requires")
	also := fs.Bool("also", false, "verify against the 'also' contract")
	verbose := fs.Bool("v", false, "verbose")
	fs.Parse(args)
	start := time.Now()
	eng, err := LoadEngine(*repo)
	if err != nil {
		fmt.Println("ENGINE-ERROR:", err)
		os.Exit(2)
	}
	fmt.Printf("loaded in %.1fs\n", time.Since(start).Seconds())
	dir := *keep
	if dir == "" {
		dir, _ = os.MkdirTemp("/var/tmp", "govc")
		defer os.RemoveAll(dir)
	} else {
		os.MkdirAll(dir, 0o755)
	}
	bad := 0
	for _, name := range fs.Args() {
		var u *Unit
		full := name
		t0 := time.Now()
		if strings.HasPrefix(name, "lemmas:") {
			u = eng.VerifyLemmas(modulePath+"/internal/"+strings.TrimPrefix(name, "lemmas:"), nil)
		} else {
			fn, f2, err := eng.LookupFunc(name)
			if err != nil {
				fmt.Println("ENGINE-ERROR:", err)
				os.Exit(2)
			}
			full = f2
			u = eng.VerifyFunction(fn, VerifyOpts{IgnoreRequires: *uncon, Also: *also})
		}
		fmt.Printf("== %s: %d obligations generated in %.2fs, %d asserts, %d decls\n", full, len(u.obls), time.Since(t0).Seconds(), len(u.asserts), len(u.W.decls))
		for _, e := range u.errs {
			fmt.Println("  ERROR:", e)
			bad++
		}
		for _, n := range u.notes {
			fmt.Println("  note:", n)
		}
		var obls []*Obligation
		for _, o := range u.obls {
			if *only == "" || strings.Contains(o.Name, *only) {
				obls = append(obls, o)
			}
		}
		eng.Discharge(obls, dir, *timeout, false, nil)
		sort.SliceStable(obls, func(i, j int) bool { return false })
		for _, o := range obls {
			mark := "ok  "
			if !o.Holds() {
				mark = "FAIL"
				bad++
			}
			if *verbose || !o.Holds() {
				fmt.Printf("  %s %-8s %-7s %5.2fs  %s\n", mark, o.Res.Verdict, o.Res.Solver, o.Res.Seconds, o.Name)
				if !o.Holds() {
					fmt.Printf("        %s  [%s] %s\n", o.Text, o.Pos, o.File)
					if len(o.Model) > 0 {
						fmt.Printf("        model: %v\n", o.Model)
					}
				}
			}
		}
		n := 0
		for _, o := range obls {
			if o.Holds() {
				n++
			}
		}
		fmt.Printf("   %d/%d discharged\n", n, len(obls))
	}
	if bad > 0 {
		os.Exit(1)
	}
}


// cmdLocals writes /verif/locals.json: for every function of the repository the names of its
// receiver, parameters and named locals in declaration order. Contract clauses name locals; when
// one was merely renamed (same number of declarations, other name at the same ordinal) the
// engine re-binds the clause instead of reporting drift. Regenerate whenever contracts are
// brought in line with the code: `bin/govc locals`.
func cmdLocals(args []string) {
	fs := flag.NewFlagSet("locals", flag.ExitOnError)
	repo := fs.String("repo", "/repo", "repository")
	fs.Parse(args)
	eng, err := LoadEngine(*repo)
	if err != nil {
		fmt.Fprintln(os.Stderr, err)
		os.Exit(2)
	}
	out := map[string][]string{}
	for k, fn := range eng.fnIndex {
		if !strings.HasPrefix(k, modulePath) || fn.Blocks == nil || fn.Synthetic != "" {
			continue
		}
		if names := declaredNames(fn); len(names) > 0 {
			out[k] = names
		}
	}
	b, _ := json.MarshalIndent(out, "", " ")
	if err := os.WriteFile(filepath.Join(verifDir, "locals.json"), b, 0o644); err != nil {
		fmt.Fprintln(os.Stderr, err)
		os.Exit(2)
	}
	fmt.Printf("locals.json: %d functions\n", len(out))
}
