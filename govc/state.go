package main

import (
	"fmt"
	"go/token"
	"go/types"
	"strings"

	"golang.org/x/tools/go/ssa"
)

// Value is a symbolic value: Term (SMT level), *Loc (pointer known at meta level),
// *Closure, Tuple, *FuncRef, *BuiltinRef.
type Value interface{}

type Tuple []Value

type FuncRef struct{ Fn *ssa.Function }
type BuiltinRef struct{ B *ssa.Builtin }

type Closure struct {
	Fn       *ssa.Function
	Bindings []Value
}

type PathElem struct {
	Field int   // field index (when Index == nil)
	Index *Term // array index
	T     types.Type // type of the container the step is applied to
}

// Loc is an address.
type Loc struct {
	Kind string      // "cell", "heap"
	Key  interface{} // cell key (*ssa.Alloc, *ssa.Global, ...)
	Ptr  Term        // heap: pointer to the root object
	Root types.Type  // type of the root object
	Path []PathElem
}

func (l *Loc) String() string {
	if l.Kind == "heap" {
		return fmt.Sprintf("heap(%s,%s)%v", typeKey(l.Root), l.Ptr.S, len(l.Path))
	}
	return fmt.Sprintf("cell(%v)%v", l.Key, len(l.Path))
}

// elemType: type of the value stored at the location.
func (l *Loc) elemType() types.Type {
	t := l.Root
	for _, pe := range l.Path {
		if pe.Index != nil {
			t = t.Underlying().(*types.Array).Elem()
		} else {
			t = structOf(t).Field(pe.Field).Type()
		}
	}
	return t
}

type deferred struct {
	call *ssa.CallCommon
	args []Value
	fn   Value
	site ssa.Instruction
}

type mergeEdge struct {
	cond Term
	st   *State
}

// Gen describes how heaps not yet materialised in a state are obtained.
type Gen struct {
	kind        string // init, havoc, merge
	parent      *State
	writable    func(heap string, p Term) Term // havoc: may location p of heap have been written? nil => everything
	allocBefore Term
	guard       Term
	parents     []mergeEdge
	tag         string
	only        map[string]bool // havoc: heaps that may have been written at all (nil = any)
	allocAfter  *Term           // havoc: allocation counter after the havocked code
}

type State struct {
	cells  map[interface{}]Value
	heaps  map[string]Term
	gen    *Gen
	alloc  Term
	defers []*deferred
	u      *Unit
	noName bool // pure mode: terms must stay closed
	gdirty   bool        // a call that may assign any package variable has run on this path
	symOrder [][2]string // gen kind sym: heaps touched, in first-use order
}

func (s *State) Clone() *State {
	n := &State{cells: make(map[interface{}]Value, len(s.cells)), heaps: make(map[string]Term, len(s.heaps)), gen: s.gen, alloc: s.alloc, u: s.u, noName: s.noName, gdirty: s.gdirty}
	for k, v := range s.cells {
		n.cells[k] = v
	}
	for k, v := range s.heaps {
		n.heaps[k] = v
	}
	n.defers = append([]*deferred(nil), s.defers...)
	return n
}

// Heap returns the current term of the named heap (sort is the full array sort).
func (s *State) Heap(name, sort string) Term {
	if t, ok := s.heaps[name]; ok {
		return t
	}
	u := s.u
	var t Term
	switch s.gen.kind {
	case "sym":
		// symbolic heap of an opaque spec function's definition: a bound variable
		t = Term{"hv!" + sanitize(name), sort}
		s.heaps[name] = t
		s.symOrder = append(s.symOrder, [2]string{name, sort})
		return t
	case "init":
		t = u.W.Const(name+"@0", sort)
		u.heapInitFacts(name, t, TTrue)
		u.heapWellTyped(name, t, TTrue, u.W.Const("alloc@0", SInt))
	case "havoc":
		pv := s.gen.parent.Heap(name, sort)
		if s.gen.only != nil && !s.gen.only[name] {
			// not written by the havocked code: fresh memory it allocated was unconstrained before
			s.heaps[name] = pv
			return pv
		}
		t = u.W.Fresh(name+"@"+s.gen.tag, sort)
		if strings.HasPrefix(name, "G.") && !strings.HasPrefix(sort, "(Array Ptr ") {
			// ghost map keyed by something other than a pointer: either the whole map may change
			// (it is in the frame) or none of it
			if s.gen.writable != nil {
				if w := s.gen.writable(name, Term{"p!f", SPtr}); w.S == "false" {
					u.Assume(s.gen.guard, Eq(t, pv))
				}
			}
			s.heaps[name] = t
			return t
		}
		if s.gen.writable != nil {
			p := Term{"p!f", SPtr}
			w := s.gen.writable(name, p)
			if w.S == "false" {
				// nothing of this heap written except fresh memory
				w = TFalse
			}
			cond := And(Lt(PBase(p), s.gen.allocBefore), Not(w))
			body := Implies(cond, Eq(Select(t, p), Select(pv, p)))
			u.Assume(s.gen.guard, Term{fmt.Sprintf("(forall ((p!f Ptr)) (! %s :pattern ((select %s p!f))))", body.S, t.S), SBool})
		} else {
			u.heapInitFacts(name, t, s.gen.guard)
		}
		if s.gen.allocAfter != nil {
			u.heapWellTyped(name, t, s.gen.guard, *s.gen.allocAfter)
		}
	case "merge":
		var vals []Term
		same := true
		for _, e := range s.gen.parents {
			v := e.st.Heap(name, sort)
			vals = append(vals, v)
			if v.S != vals[0].S {
				same = false
			}
		}
		if same {
			t = vals[0]
		} else {
			t = u.W.Fresh(name+"@m", sort)
			for i, e := range s.gen.parents {
				u.AssumeRaw(Implies(e.cond, Eq(t, vals[i])))
			}
		}
	}
	s.heaps[name] = t
	return t
}

func (s *State) SetHeap(name string, t Term) {
	if len(t.S) > 160 && !s.noName {
		t = s.u.NameTerm(t, name)
	}
	s.heaps[name] = t
}

// NameTerm introduces a constant for a large term (keeps queries linear in size).
func (u *Unit) NameTerm(t Term, hint string) Term {
	if len(t.S) <= 160 {
		return t
	}
	n := u.W.Fresh("d."+hint, t.Sort)
	u.AssumeRaw(Eq(n, t))
	return n
}

// heapInitFacts: facts true of every unconstrained heap version.
func (u *Unit) heapInitFacts(name string, t Term, guard Term) {
	if strings.HasPrefix(name, "MD.") {
		_, vs := arraySorts(t.Sort)
		u.Assume(guard, Eq(Select(t, TNil), ConstArray(vs, TFalse)))
	}
	if strings.HasPrefix(name, "MC.") {
		u.Assume(guard, Eq(Select(t, TNil), IntLit(0)))
	}
}

// ---------------------------------------------------------------------------

type Obligation struct {
	Name     string
	Kind     string // safety, ensures, requires, invariant, variant, frame, lemma, assert
	Text     string
	Goal     Term
	Reach    Term
	NAsserts int
	NDecls   int
	Pos      token.Position
	Func     string
	Unit     *Unit
	// result
	Res     SolverResult
	Model   map[string]string
	Inputs  []string // input terms to ask a model for
	Skipped bool
	ExpectSat bool
	QuerySize int
	File      string
}

// Unit is one verification unit: a function verified against its contract.
type Unit struct {
	Name    string
	W       *World
	asserts []string
	obls    []*Obligation
	eng     *Engine
	errs    []string
	inputs  []string
	nameCnt map[string]int
	notes   []string
	usedAssumed map[string]bool
	usedPureUF  map[string]bool
	havocCalls  map[string]bool
	inlined     map[string]bool
	lockKeys    map[string]bool
	seqFacts    map[string]bool
	concurrent  bool // the unit's function is declared `opt concurrent yes`
	interference bool // `opt interference yes`: acquiring a mutex havocs the add-only maps it guards (other threads ran)
	guardOrigin map[string]guardOrigin // value term -> mutex that guards the contents of that map
	opaqueDefs  map[string]*opaqueDef
	hintTags    map[string]string // property tag -> flag constant enabling the hints of that tag
	sortSites   []*SortSite
	qid         int
	closures    []*regClosure
	boxed       map[string]boxedVal // interface terms built by MakeInterface in this unit: concrete type and value
	Fn          *ssa.Function
	OutOfSubset string
	Returns     int
}

func (u *Unit) AssumeRaw(t Term) {
	if t.S == "true" {
		return
	}
	u.asserts = append(u.asserts, "(assert "+t.S+")")
}

func (u *Unit) Assume(guard, t Term) { u.AssumeRaw(Implies(guard, t)) }

func (u *Unit) AddObl(name, kind, text string, reach, goal Term, pos token.Position, fn string) *Obligation {
	if goal.S == "true" || reach.S == "false" {
		return nil
	}
	u.nameCnt[name]++
	if n := u.nameCnt[name]; n > 1 || kind == "safety" || kind == "frame" || kind == "frame-unmodelled" || kind == "requires" || kind == "lock" {
		name = fmt.Sprintf("%s #%d", name, n)
	}
	o := &Obligation{Name: name, Kind: kind, Text: text, Goal: goal, Reach: reach, NAsserts: len(u.asserts), NDecls: len(u.W.decls), Pos: pos, Func: fn, Unit: u}
	u.obls = append(u.obls, o)
	return o
}

func (u *Unit) Errorf(f string, a ...interface{}) {
	u.errs = append(u.errs, fmt.Sprintf(f, a...))
}

// Query builds the SMT-LIB query for an obligation.
func (o *Obligation) Query() string {
	u := o.Unit
	var b strings.Builder
	b.WriteString(smtPrelude)
	// All declarations (later declarations are harmless), assertions up to the snapshot.
	for _, d := range u.W.decls {
		b.WriteString(d)
		b.WriteByte('\n')
	}
	b.WriteString(u.W.literalDecls())
	for _, a := range u.asserts[:o.NAsserts] {
		b.WriteString(a)
		b.WriteByte('\n')
	}
	for _, tag := range sortedStrKeys(u.hintTags) {
		if strings.Contains(o.Name, "["+tag+".") || strings.Contains(o.Name, "["+tag+"/") {
			fmt.Fprintf(&b, "(assert %s)\n", u.hintTags[tag])
		} else {
			fmt.Fprintf(&b, "(assert (not %s))\n", u.hintTags[tag])
		}
	}
	fmt.Fprintf(&b, "; obligation: %s\n; %s\n", o.Name, strings.ReplaceAll(o.Text, "\n", " "))
	fmt.Fprintf(&b, "(assert %s)\n(assert (not %s))\n(check-sat)\n", o.Reach.S, o.Goal.S)
	return b.String()
}

// heapWellTyped: every pointer / slice / map reference stored in the heap refers to allocated
// memory (the standing well-typedness invariant of Go memory), stated for one heap version.
func (u *Unit) heapWellTyped(name string, t Term, guard Term, alloc Term) {
	gt, ok := u.W.heapTypes[name]
	if !ok {
		return
	}
	if strings.HasPrefix(name, "MV.") {
		mt := gt.Underlying().(*types.Map)
		k := Term{"k!w", u.W.SortOf(mt.Key())}
		m := Term{"m!w", SPtr}
		v := Select(Select(t, m), k)
		f := u.typeFacts(v, mt.Elem(), alloc, 1)
		if f.S == "true" || !mentionsPtr(mt.Elem()) {
			return
		}
		f = Implies(Lt(PBase(m), alloc), f)
		u.Assume(guard, Term{fmt.Sprintf("(forall ((m!w Ptr) (k!w %s)) (! %s :pattern (%s)))", k.Sort, f.S, v.S), SBool})
		return
	}
	if strings.HasPrefix(name, "MD.") || strings.HasPrefix(name, "MC.") {
		return
	}
	if !mentionsPtr(gt) {
		return
	}
	p := Term{"p!w", SPtr}
	v := Select(t, p)
	f := u.typeFacts(v, gt, alloc, 1)
	if f.S == "true" {
		return
	}
	f = Implies(Lt(PBase(p), alloc), f)
	u.Assume(guard, Term{fmt.Sprintf("(forall ((p!w Ptr)) (! %s :pattern (%s)))", f.S, v.S), SBool})
}

func mentionsPtr(t types.Type) bool {
	switch tt := t.Underlying().(type) {
	case *types.Pointer, *types.Slice, *types.Map, *types.Chan:
		return true
	case *types.Struct:
		for i := 0; i < tt.NumFields(); i++ {
			if mentionsPtr(tt.Field(i).Type()) {
				return true
			}
		}
	}
	return false
}

// Function values that reach memory are named by constants; the registry lets a later call
// through a loaded function value dispatch over the closures it can be.
type regClosure struct {
	c    *Closure
	name Term
	key  string
}

func (u *Unit) closureConst(c *Closure, x *Exec) Term {
	key := c.Fn.String()
	for _, b := range c.Bindings {
		switch bv := b.(type) {
		case Term:
			key += "|" + bv.S
		case *Loc:
			key += "|" + bv.String()
		default:
			key += fmt.Sprintf("|%p", b)
		}
	}
	for _, r := range u.closures {
		if r.key == key {
			return r.name
		}
	}
	name := u.W.Const(fmt.Sprintf("closure!%d.%s", len(u.closures), c.Fn.Name()), SFn)
	for _, r := range u.closures {
		u.AssumeRaw(Not(Eq(name, r.name)))
	}
	u.AssumeRaw(Not(Eq(name, u.W.Const("fn.nil", SFn))))
	u.closures = append(u.closures, &regClosure{c: c, name: name, key: key})
	return name
}

type boxedVal struct {
	T types.Type
	V Value
}

