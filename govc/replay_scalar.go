package main

import (
	"fmt"
	"go/types"
	"math/big"
	"regexp"
	"strings"
)

// Generic replay for functions whose parameters and results are all integers or booleans (plus
// an optional trailing error): the arguments of the solver's model are passed to the REAL
// function in an overlay test that prints what came back; the contract's requires / ensures
// clauses are then evaluated here, in exact integer arithmetic, on those concrete values. The
// replay confirms a violation only if every requires clause holds for the input and the real
// function panics or some ensures clause is false. Nothing of the verifier's encoding of the
// body takes part in the verdict.

func scalarKind(t types.Type) string {
	if b, ok := t.Underlying().(*types.Basic); ok {
		switch {
		case b.Info()&types.IsInteger != 0 && b.Info()&types.IsUnsigned == 0:
			return "int"
		case b.Kind() == types.Bool:
			return "bool"
		}
	}
	if t.String() == "error" {
		return "error"
	}
	return ""
}

var replayLine = regexp.MustCompile(`REPLAY-RESULT (.*)`)

func scalarReplay(eng *Engine, o *Obligation, model map[string]string) (bool, map[string]interface{}, bool) {
	if o.Unit == nil || o.Unit.Fn == nil {
		return false, nil, false
	}
	fn := o.Unit.Fn
	sig := fn.Signature
	if sig.Recv() != nil || fn.Pkg == nil || sig.Variadic() {
		return false, nil, false
	}
	pkgPath := fn.Pkg.Pkg.Path()
	if !strings.HasPrefix(pkgPath, modulePath+"/") {
		return false, nil, false
	}
	env := map[string]interface{}{}
	var args []string
	for i := 0; i < sig.Params().Len(); i++ {
		p := sig.Params().At(i)
		switch scalarKind(p.Type()) {
		case "int":
			v, ok := modelInt(model, "arg."+p.Name())
			if !ok {
				v = 0
			}
			env[p.Name()] = big.NewInt(v)
			args = append(args, fmt.Sprintf("%s(%d)", types.TypeString(p.Type(), func(*types.Package) string { return "" }), v))
		case "bool":
			v, _ := modelBool(model, "arg."+p.Name())
			env[p.Name()] = v
			args = append(args, fmt.Sprint(v))
		default:
			return false, nil, false
		}
	}
	nres := sig.Results().Len()
	var lhs, prints []string
	for i := 0; i < nres; i++ {
		k := scalarKind(sig.Results().At(i).Type())
		if k == "" || (k == "error" && i != nres-1) {
			return false, nil, false
		}
		lhs = append(lhs, fmt.Sprintf("r%d", i))
		if k == "error" {
			prints = append(prints, fmt.Sprintf(`fmt.Sprintf("r%d=err:%%v", r%d != nil)`, i, i))
		} else {
			prints = append(prints, fmt.Sprintf(`fmt.Sprintf("r%d=%%v", r%d)`, i, i))
		}
	}
	call := fn.Name() + "(" + strings.Join(args, ", ") + ")"
	assign := ""
	if nres > 0 {
		assign = strings.Join(lhs, ", ") + " := "
	}
	src := fmt.Sprintf(`package %s

import ("testing"; "fmt"; "strings")

func TestZZReplay(t *testing.T) {
	defer func() {
		if r := recover(); r != nil { t.Logf("REPLAY-RESULT panic=%%v", r) }
	}()
	%s%s
	t.Logf("REPLAY-RESULT %%s", strings.Join([]string{%s}, " "))
}
`, fn.Pkg.Pkg.Name(), assign, call, strings.Join(append(prints, `""`), ", "))
	pkgRel := strings.TrimPrefix(pkgPath, modulePath+"/")
	_, out := runOverlayTest(eng.repoDir, pkgRel, src, "TestZZReplay")
	info := map[string]interface{}{"status": "replayed (generic scalar driver)", "package": pkgRel, "call": call, "test_source": src, "output": trunc(out, 3000)}
	m := replayLine.FindStringSubmatch(out)
	if m == nil {
		info["status"] = "replay test did not run to a result"
		return false, info, true
	}
	fc := eng.cs.Funcs[pkgPath+"::"+fn.Name()]
	ev := &scalarEval{eng: eng, pkg: pkgPath}
	// the input must satisfy the precondition
	if fc != nil {
		for _, c := range fc.Requires {
			v, err := ev.eval(c.Expr, env)
			if err != nil {
				info["status"] = "requires clause not evaluable on concrete values: " + err.Error()
				return false, info, true
			}
			if b, _ := v.(bool); !b {
				info["status"] = "the model's input does not satisfy requires: " + c.Text
				return false, info, true
			}
		}
	}
	if strings.HasPrefix(m[1], "panic=") {
		info["violated"] = "the real function panics on " + call + ": " + m[1]
		info["confirmed"] = true
		return true, info, true
	}
	for i, f := range strings.Fields(m[1]) {
		kv := strings.SplitN(f, "=", 2)
		if len(kv) != 2 {
			continue
		}
		var val interface{}
		switch {
		case strings.HasPrefix(kv[1], "err:"):
			val = errVal(kv[1] == "err:true")
		case kv[1] == "true" || kv[1] == "false":
			val = kv[1] == "true"
		default:
			n, ok := new(big.Int).SetString(kv[1], 10)
			if !ok {
				return false, info, true
			}
			val = n
		}
		env[fmt.Sprintf("result%d", i)] = val
		if nres == 1 || (nres == 2 && i == 0 && scalarKind(sig.Results().At(1).Type()) == "error") {
			env["result"] = val
		}
		if n := sig.Results().At(i).Name(); n != "" && n != "_" {
			env[n] = val
		}
	}
	if fc == nil {
		return false, info, true
	}
	for _, c := range fc.Ensures {
		v, err := ev.eval(c.Expr, env)
		if err != nil {
			continue
		}
		if b, _ := v.(bool); !b {
			info["violated"] = fmt.Sprintf("%s returns %s, which falsifies ensures[%s] %s", call, strings.TrimSpace(m[1]), c.Name, c.Text)
			info["confirmed"] = true
			return true, info, true
		}
	}
	info["status"] = "replayed: the real function satisfies every evaluable ensures clause on the model's input (the model is spurious or the clause is not evaluable)"
	return false, info, true
}

type errVal bool // true: a non-nil error

type scalarEval struct {
	eng   *Engine
	pkg   string
	depth int
}

func (ev *scalarEval) eval(e *SExpr, env map[string]interface{}) (interface{}, error) {
	if e == nil {
		return nil, fmt.Errorf("empty expression")
	}
	switch e.Kind {
	case "int":
		n, ok := new(big.Int).SetString(e.Name, 10)
		if !ok {
			return nil, fmt.Errorf("literal %s", e.Name)
		}
		return n, nil
	case "ident":
		switch e.Name {
		case "true":
			return true, nil
		case "false":
			return false, nil
		case "nil":
			return errVal(false), nil
		}
		if v, ok := env[e.Name]; ok {
			return v, nil
		}
		return nil, fmt.Errorf("unbound %s", e.Name)
	case "un":
		v, err := ev.eval(e.Args[0], env)
		if err != nil {
			return nil, err
		}
		switch x := v.(type) {
		case bool:
			if e.Op == "!" {
				return !x, nil
			}
		case *big.Int:
			if e.Op == "-" {
				return new(big.Int).Neg(x), nil
			}
		}
		return nil, fmt.Errorf("unary %s", e.Op)
	case "cond":
		c, err := ev.eval(e.Args[0], env)
		if err != nil {
			return nil, err
		}
		b, ok := c.(bool)
		if !ok {
			return nil, fmt.Errorf("condition not boolean")
		}
		if b {
			return ev.eval(e.Args[1], env)
		}
		return ev.eval(e.Args[2], env)
	case "call":
		if e.Args[0].Kind != "ident" {
			return nil, fmt.Errorf("call form")
		}
		name := e.Args[0].Name
		var pf *PureFunc
		for _, k := range []string{ev.pkg + "::" + name, name} {
			if p, ok := ev.eng.cs.Pures[k]; ok {
				pf = p
				break
			}
		}
		if pf == nil || pf.Body == nil || len(pf.Params) != len(e.Args)-1 || ev.depth > 50 {
			return nil, fmt.Errorf("spec function %s has no evaluable body", name)
		}
		env2 := map[string]interface{}{}
		for i, p := range pf.Params {
			v, err := ev.eval(e.Args[i+1], env)
			if err != nil {
				return nil, err
			}
			env2[p.Name] = v
		}
		ev.depth++
		defer func() { ev.depth-- }()
		return ev.eval(pf.Body, env2)
	case "bin":
		switch e.Op {
		case "&&", "||", "==>", "<==>":
			l, err := ev.eval(e.Args[0], env)
			if err != nil {
				return nil, err
			}
			lb, ok := l.(bool)
			if !ok {
				return nil, fmt.Errorf("operand of %s not boolean", e.Op)
			}
			if e.Op == "&&" && !lb {
				return false, nil
			}
			if e.Op == "||" && lb {
				return true, nil
			}
			if e.Op == "==>" && !lb {
				return true, nil
			}
			r, err := ev.eval(e.Args[1], env)
			if err != nil {
				return nil, err
			}
			rb, ok := r.(bool)
			if !ok {
				return nil, fmt.Errorf("operand of %s not boolean", e.Op)
			}
			if e.Op == "<==>" {
				return lb == rb, nil
			}
			return rb, nil
		}
		l, err := ev.eval(e.Args[0], env)
		if err != nil {
			return nil, err
		}
		r, err := ev.eval(e.Args[1], env)
		if err != nil {
			return nil, err
		}
		switch x := l.(type) {
		case *big.Int:
			y, ok := r.(*big.Int)
			if !ok {
				return nil, fmt.Errorf("mixed operands of %s", e.Op)
			}
			c := x.Cmp(y)
			switch e.Op {
			case "==":
				return c == 0, nil
			case "!=":
				return c != 0, nil
			case "<":
				return c < 0, nil
			case "<=":
				return c <= 0, nil
			case ">":
				return c > 0, nil
			case ">=":
				return c >= 0, nil
			case "+":
				return new(big.Int).Add(x, y), nil
			case "-":
				return new(big.Int).Sub(x, y), nil
			case "*":
				return new(big.Int).Mul(x, y), nil
			case "/":
				if y.Sign() == 0 {
					return nil, fmt.Errorf("division by zero in the clause")
				}
				return new(big.Int).Quo(x, y), nil // Go's truncated division, as in the encoding
			case "%":
				if y.Sign() == 0 {
					return nil, fmt.Errorf("division by zero in the clause")
				}
				return new(big.Int).Rem(x, y), nil
			}
		case bool:
			y, ok := r.(bool)
			if ok && e.Op == "==" {
				return x == y, nil
			}
			if ok && e.Op == "!=" {
				return x != y, nil
			}
		case errVal:
			y, ok := r.(errVal)
			if ok && e.Op == "==" {
				return x == y, nil
			}
			if ok && e.Op == "!=" {
				return x != y, nil
			}
		}
		return nil, fmt.Errorf("operator %s on these operands", e.Op)
	}
	return nil, fmt.Errorf("expression kind %s not evaluable on concrete scalars", e.Kind)
}
