package main

import (
	"fmt"
	"go/constant"
	"go/token"
	"go/types"
	"os"
	"sort"
	"strings"

	"golang.org/x/tools/go/ssa"
)

type MapIter struct {
	Map     Term
	MapType *types.Map
	Visited Term
	N       Term
	IsStr   bool
	Str     Term
	Pos     Term
}

// val evaluates an SSA value.
func (x *Exec) val(v ssa.Value) Value {
	switch v := v.(type) {
	case *ssa.Const:
		if v.Value == nil {
			return x.u.W.Zero(v.Type())
		}
		return x.u.W.ConstTerm(v.Value, v.Type())
	case *ssa.Global:
		return &Loc{Kind: "cell", Key: v, Root: v.Type().Underlying().(*types.Pointer).Elem()}
	case *ssa.Function:
		return &FuncRef{v}
	case *ssa.Builtin:
		return &BuiltinRef{v}
	}
	if r, ok := x.regs[v]; ok {
		return r
	}
	x.fail("no value for %s (%T) in %s", v.Name(), v, x.fn)
	return nil
}

// term converts a value to an SMT term.
func (x *Exec) term(v Value) Term {
	switch v := v.(type) {
	case Term:
		return v
	case *Loc:
		if v.Kind == "heap" && len(v.Path) == 0 {
			return v.Ptr
		}
		x.fail("address %s used as a first-class value", v)
	case *Closure:
		return x.u.closureConst(v, x)
	case *FuncRef:
		return x.u.closureConst(&Closure{Fn: v.Fn}, x)
	case poison:
		x.fail("value of %s differs across paths at meta level", v.what)
	case Tuple:
		x.fail("tuple used as a term")
	}
	x.fail("cannot convert %T to a term", v)
	return Term{}
}

func (x *Exec) obl(name, kind, text string, st *State, goal Term) {
	if x.pure {
		return
	}
	o := x.u.AddObl(x.prefix+" / "+name, kind, text, x.curBlockReach, goal, x.instrPos(x.curInstr), x.prefix)
	if o != nil {
		// after checking, assume
		x.u.Assume(x.curBlockReach, goal)
	}
}

func (x *Exec) assume(t Term) {
	if x.pure {
		return
	}
	x.u.Assume(x.curBlockReach, t)
}

// ---------------------------------------------------------------------------
// Memory access

func (x *Exec) heapOf(t types.Type) (string, string) {
	n := heapName(t)
	x.u.W.heapTypes[n] = t
	return n, ArraySort(SPtr, x.u.W.SortOf(t))
}

func (x *Exec) load(l *Loc, st *State) Value {
	var base Value
	if l.Kind == "cell" {
		v, ok := st.cells[l.Key]
		if !ok {
			// globals and unseen cells: unknown initial value - the one already given to the cell at
			// function entry if some other state (a contract clause) read it first: a cell absent
			// from this state has not been written on this path
			if ev, ok := x.entryValue(l.Key); ok && !st.gdirty {
				st.cells[l.Key] = ev
				v = ev
			} else if iv, ok := x.initialisedGlobal(l.Key, st); ok {
				// a package-level variable that is set once, by its initialiser, to a constant or to a
				// pure library call over constants (a compiled regular expression) and never
				// written again: its value is that value
				st.cells[l.Key] = iv
				v = iv
			} else {
				t := cellTypeOfLoc(l)
				nv := x.u.W.Fresh("g."+cellName(l.Key), x.u.W.SortOf(t))
				x.assumeTypeInv(nv, t, TTrue, st)
				if !st.gdirty {
					x.entryCell(l.Key, nv)
				}
				st.cells[l.Key] = nv
				v = nv
			}
		}
		base = v
	} else {
		hn, hs := x.heapOf(l.Root)
		x.guardCheck(l, false, st)
		base = Select(st.Heap(hn, hs), l.Ptr)
	}
	if len(l.Path) == 0 {
		if t, ok := base.(Term); ok {
			x.validOnLoad(t, l.Root, st)
		}
		return base
	}
	bt, ok := base.(Term)
	if !ok {
		x.fail("path access into meta value")
	}
	cur := bt
	for _, pe := range l.Path {
		if pe.Index != nil {
			cur = Select(cur, *pe.Index)
		} else {
			cur = x.u.W.FieldGet(pe.T, cur, pe.Field)
		}
	}
	x.validOnLoad(cur, l.elemType(), st)
	if l.Kind == "heap" {
		x.noteGuardedContents(l, cur)
	}
	return cur
}

// entryCell records the initial value of a global first read after entry, so old() sees it.
func (x *Exec) entryCell(key interface{}, v Term) {
	if x.entry != nil {
		if _, ok := x.entry.cells[key]; !ok {
			x.entry.cells[key] = v
		}
	}
}

func (x *Exec) entryValue(key interface{}) (Value, bool) {
	if _, isGlobal := key.(*ssa.Global); !isGlobal || x.entry == nil {
		return nil, false
	}
	v, ok := x.entry.cells[key]
	return v, ok
}

func cellTypeOfLoc(l *Loc) types.Type { return l.Root }

// validOnLoad: pointers read from memory point to allocated objects.
func (x *Exec) validOnLoad(v Term, t types.Type, st *State) {
	if x.pure {
		return
	}
	switch t.Underlying().(type) {
	case *types.Pointer, *types.Map, *types.Slice:
		x.assume(x.u.typeFacts(v, t, st.alloc, 0))
	case *types.Basic:
		b := t.Underlying().(*types.Basic)
		if b.Info()&types.IsInteger != 0 && len(v.S) < 200 {
			x.assume(x.u.typeFacts(v, t, st.alloc, 0))
		}
	}
}

func (x *Exec) store(l *Loc, v Value, st *State) {
	if lv, ok := v.(*Loc); ok && lv.Kind == "heap" && len(lv.Path) == 0 {
		v = lv.Ptr
	}
	if l.Kind == "cell" && len(l.Path) == 0 {
		if t, ok := v.(Term); ok && !x.pure {
			v = x.u.NameTerm(t, cellName(l.Key))
		}
		st.cells[l.Key] = v
		return
	}
	nv := x.term(v)
	var base Term
	var hn, hs string
	if l.Kind == "cell" {
		bv, ok := st.cells[l.Key]
		if !ok {
			bv = x.load(&Loc{Kind: "cell", Key: l.Key, Root: l.Root}, st)
		}
		bt, ok := bv.(Term)
		if !ok {
			x.fail("store into path of meta value")
		}
		base = bt
	} else {
		hn, hs = x.heapOf(l.Root)
		x.guardCheck(l, true, st)
		x.frameCheck(hn, l.Ptr, st)
		base = Select(st.Heap(hn, hs), l.Ptr)
	}
	upd := x.setPath(base, l.Root, l.Path, nv)
	if l.Kind == "cell" {
		if !x.pure {
			upd = x.u.NameTerm(upd, cellName(l.Key))
		}
		st.cells[l.Key] = upd
	} else {
		st.SetHeap(hn, Store(st.Heap(hn, hs), l.Ptr, upd))
	}
}

func (x *Exec) setPath(base Term, t types.Type, path []PathElem, nv Term) Term {
	if len(path) == 0 {
		if base.Sort == SReal {
			return ToReal(nv)
		}
		return nv
	}
	pe := path[0]
	if pe.Index != nil {
		inner := Select(base, *pe.Index)
		et := t.Underlying().(*types.Array).Elem()
		return Store(base, *pe.Index, x.setPath(inner, et, path[1:], nv))
	}
	inner := x.u.W.FieldGet(t, base, pe.Field)
	ft := structOf(t).Field(pe.Field).Type()
	return x.u.W.FieldSet(t, base, pe.Field, x.setPath(inner, ft, path[1:], nv))
}

// frameCheck: a write to heap location p must be allowed by the frame.
// guardCheck: lock discipline of `guarded` types. An access to a guarded field of an object that
// this call did not allocate needs the object's mutex (exclusively, for a write).
func (x *Exec) guardCheck(l *Loc, write bool, st *State) {
	if x.pure || l.Kind != "heap" || len(l.Path) == 0 || l.Path[0].Index != nil {
		return
	}
	named, ok := l.Root.(*types.Named)
	if !ok || named.Obj().Pkg() == nil {
		return
	}
	g := x.u.eng.cs.Guards[named.Obj().Pkg().Path()+"."+named.Obj().Name()]
	if g == nil {
		return
	}
	stt := structOf(l.Root)
	if stt == nil {
		return
	}
	if g.Contents[stt.Field(l.Path[0].Field).Name()] {
		if x.freshBases[PBase(l.Ptr).S] || x.freshBases[l.Ptr.S] {
			return
		}
		if write {
			x.obl("guard[assign "+named.Obj().Name()+"."+stt.Field(l.Path[0].Field).Name()+"]", "lock", "the field is assigned by the constructor only (its contents are guarded, the field itself is read without the lock)", st, Ge(PBase(l.Ptr), x.alloc0))
		}
		return
	}
	if !g.Fields[stt.Field(l.Path[0].Field).Name()] {
		return
	}
	if x.freshBases[PBase(l.Ptr).S] || x.freshBases[l.Ptr.S] {
		return // under construction: not yet shared
	}
	key := "lock:" + (&Loc{Kind: "heap", Ptr: l.Ptr, Root: l.Root, Path: []PathElem{{Field: 0}}}).String()
	held, ok := st.cells[key].(Term)
	if !ok {
		held = IntLit(0)
	}
	fname := named.Obj().Name() + "." + stt.Field(l.Path[0].Field).Name()
	fresh := Ge(PBase(l.Ptr), x.alloc0)
	if write {
		x.obl("guard[write "+fname+"]", "lock", "field "+fname+" is written only while "+g.Mutex+" is held exclusively", st, Or(fresh, Eq(held, IntLit(2))))
	} else {
		x.obl("guard[read "+fname+"]", "lock", "field "+fname+" is read only while "+g.Mutex+" is held", st, Or(fresh, Ge(held, IntLit(1))))
	}
}

// noteGuardedContents remembers that the map just loaded from a guarded-contents field belongs to
// the object's mutex.
func (x *Exec) noteGuardedContents(l *Loc, v Term) {
	if x.pure || len(l.Path) != 1 || l.Path[0].Index != nil {
		return
	}
	named, ok := l.Root.(*types.Named)
	if !ok || named.Obj().Pkg() == nil {
		return
	}
	g := x.u.eng.cs.Guards[named.Obj().Pkg().Path()+"."+named.Obj().Name()]
	stt := structOf(l.Root)
	if g == nil || stt == nil || !g.Contents[stt.Field(l.Path[0].Field).Name()] {
		return
	}
	if x.freshBases[PBase(l.Ptr).S] || x.freshBases[l.Ptr.S] {
		return
	}
	if x.u.guardOrigin == nil {
		x.u.guardOrigin = map[string]guardOrigin{}
	}
	x.u.guardOrigin[v.S] = guardOrigin{key: "lock:" + (&Loc{Kind: "heap", Ptr: l.Ptr, Root: l.Root, Path: []PathElem{{Field: 0}}}).String(), name: named.Obj().Name() + "." + stt.Field(l.Path[0].Field).Name(), mutex: g.Mutex, addOnly: g.AddOnly[stt.Field(l.Path[0].Field).Name()]}
}

type guardOrigin struct {
	key, name, mutex string
	addOnly          bool
}

// contentsGuard: an operation on a map that was loaded from a guarded-contents field.
func (x *Exec) contentsGuard(m Term, write bool, st *State) {
	if x.pure || x.u.guardOrigin == nil {
		return
	}
	o, ok := x.u.guardOrigin[m.S]
	if !ok {
		return
	}
	held, ok := st.cells[o.key].(Term)
	if !ok {
		held = IntLit(0)
	}
	if write {
		x.obl("guard[update "+o.name+"]", "lock", "the map "+o.name+" is updated only while "+o.mutex+" is held exclusively", st, Eq(held, IntLit(2)))
	} else {
		x.obl("guard[lookup "+o.name+"]", "lock", "the map "+o.name+" is read only while "+o.mutex+" is held", st, Ge(held, IntLit(1)))
	}
}

// sharedModeCheck: while a mutex is held in shared (read) mode, only memory allocated by this call
// may be written.
func (x *Exec) sharedModeCheck(p Term, st *State) {
	if x.pure || x.freshBases[PBase(p).S] || x.freshBases[p.S] {
		return
	}
	for k := range x.u.lockKeys {
		held, ok := st.cells[k].(Term)
		if !ok || held.S == "0" || held.S == "2" {
			continue
		}
		x.obl("guard[shared-mode write]", "lock", "while a mutex is held in shared mode only memory allocated by this call is written", st, Or(Not(Eq(held, IntLit(1))), Ge(PBase(p), x.alloc0)))
	}
}

// someExclusiveLock: some mutex is held exclusively in this state.
func (x *Exec) someExclusiveLock(st *State) Term {
	var alts []Term
	var keys []string
	for k := range x.u.lockKeys {
		keys = append(keys, k)
	}
	sort.Strings(keys)
	for _, k := range keys {
		if held, ok := st.cells[k].(Term); ok {
			alts = append(alts, Eq(held, IntLit(2)))
		}
	}
	if len(alts) == 0 {
		return TFalse
	}
	return Or(alts...)
}

func (x *Exec) frameCheck(heap string, p Term, st *State) {
	if x.pure {
		x.fail("heap write in pure context")
	}
	if !x.atomicOp {
		x.sharedModeCheck(p, st)
	}
	if x.u.concurrent && !x.atomicOp && !(x.freshBases[PBase(p).S] || x.freshBases[p.S]) {
		// concurrent mode: memory that existed before this call is written only under an exclusive lock
		x.obl("guard[unsynchronised write "+heap+"]", "lock", "memory that existed before the call is written only while a mutex is held exclusively", st, Or(Ge(PBase(p), x.alloc0), x.someExclusiveLock(st)))
	}
	if x.frame == nil || x.frame.any {
		return
	}
	if x.freshBases[PBase(p).S] || x.freshBases[p.S] {
		return
	}
	goal := Or(Ge(PBase(p), x.alloc0), x.frame.Writable(heap, p))
	x.obl("frame[write "+heap+"]", "frame", "write to "+heap+" within modifies clause", st, goal)
}

// newObject allocates a fresh base.
func (x *Exec) newBase(st *State) Term {
	b := st.alloc
	// name it for readability and to keep terms small
	if len(b.S) > 20 && !x.pure {
		nb := x.u.W.Fresh("base", SInt)
		x.assume(Eq(nb, b))
		b = nb
	}
	st.alloc = Add(b, IntLit(1))
	x.freshBases[b.S] = true
	x.freshBases[MkPtr(b, IntLit(0)).S] = true
	return b
}

// ---------------------------------------------------------------------------
// Instructions

func (x *Exec) step(in ssa.Instruction, st *State) {
	x.step1(in, st)
	if v, ok := in.(ssa.Value); ok && !x.pure {
		if t, ok := x.regs[v].(Term); ok && len(t.S) > 160 {
			x.regs[v] = x.u.NameTerm(t, "t")
		}
	}
}

func (x *Exec) step1(in ssa.Instruction, st *State) {
	w := x.u.W
	switch in := in.(type) {
	case *ssa.DebugRef:
	case *ssa.Alloc:
		et := in.Type().Underlying().(*types.Pointer).Elem()
		if x.isCell(in) {
			st.cells[in] = w.Zero(et)
			x.regs[in] = &Loc{Kind: "cell", Key: in, Root: et}
			return
		}
		base := x.newBase(st)
		ptr := MkPtr(base, IntLit(0))
		if at, ok := et.Underlying().(*types.Array); ok {
			// flattened into the element heap
			hn, hs := x.heapOf(at.Elem())
			h := st.Heap(hn, hs)
			if at.Len() <= 8 {
				for i := int64(0); i < at.Len(); i++ {
					h = Store(h, MkPtr(base, IntLit(i)), w.Zero(at.Elem()))
				}
				st.SetHeap(hn, h)
			} else {
				x.assume(forallInt("i", IntLit(0), IntLit(at.Len()), func(i Term) Term {
					return Eq(Select(h, MkPtr(base, i)), w.Zero(at.Elem()))
				}))
			}
			x.regs[in] = &Loc{Kind: "heap", Ptr: ptr, Root: et}
			return
		}
		hn, hs := x.heapOf(et)
		st.SetHeap(hn, Store(st.Heap(hn, hs), ptr, w.Zero(et)))
		x.regs[in] = &Loc{Kind: "heap", Ptr: ptr, Root: et}
	case *ssa.Store:
		l := x.locOf(x.val(in.Addr), in.Addr.Type(), st)
		x.store(l, x.val(in.Val), st)
	case *ssa.UnOp:
		x.regs[in] = x.unop(in, st)
	case *ssa.BinOp:
		x.regs[in] = x.binop(in, st)
	case *ssa.FieldAddr:
		base := x.val(in.X)
		pt := in.X.Type().Underlying().(*types.Pointer).Elem()
		l := x.locOf(base, in.X.Type(), st)
		nl := &Loc{Kind: l.Kind, Key: l.Key, Ptr: l.Ptr, Root: l.Root}
		nl.Path = append(append([]PathElem(nil), l.Path...), PathElem{Field: in.Field, T: pt})
		x.regs[in] = nl
	case *ssa.Field:
		sv := x.term(x.val(in.X))
		x.regs[in] = w.FieldGet(in.X.Type(), sv, in.Field)
	case *ssa.IndexAddr:
		x.regs[in] = x.indexAddr(in, st)
	case *ssa.Index:
		xv := x.term(x.val(in.X))
		idx := x.term(x.val(in.Index))
		switch t := in.X.Type().Underlying().(type) {
		case *types.Array:
			x.obl("safety[index]", "safety", "array index in range", st, And(Ge(idx, IntLit(0)), Lt(idx, IntLit(t.Len()))))
			x.regs[in] = Select(xv, idx)
		case *types.Basic: // string
			x.obl("safety[index]", "safety", "string index in range", st, And(Ge(idx, IntLit(0)), Lt(idx, app(SInt, "s.len", xv))))
			r := app(SInt, "s.at", xv, idx)
			x.assume(And(Ge(r, IntLit(0)), Le(r, IntLit(255))))
			x.regs[in] = r
		default:
			x.fail("Index on %s", in.X.Type())
		}
	case *ssa.Lookup:
		x.regs[in] = x.lookup(in, st)
	case *ssa.MapUpdate:
		x.mapUpdate(x.term(x.val(in.Map)), in.Map.Type().Underlying().(*types.Map), x.term(x.val(in.Key)), x.term(x.val(in.Value)), st)
	case *ssa.MakeMap:
		if in.Reserve != nil {
			x.allocBound(x.term(x.val(in.Reserve)), st, "map size hint")
		}
		x.regs[in] = x.makeMap(in.Type().Underlying().(*types.Map), st)
	case *ssa.MakeSlice:
		x.regs[in] = x.makeSlice(in, st)
	case *ssa.Slice:
		x.regs[in] = x.sliceOp(in, st)
	case *ssa.MakeClosure:
		var bs []Value
		for _, b := range in.Bindings {
			bs = append(bs, x.val(b))
		}
		x.regs[in] = &Closure{Fn: in.Fn.(*ssa.Function), Bindings: bs}
	case *ssa.MakeInterface:
		x.regs[in] = x.makeInterface(in.X.Type(), x.val(in.X))
	case *ssa.ChangeInterface:
		x.regs[in] = x.val(in.X)
	case *ssa.ChangeType:
		x.regs[in] = x.val(in.X)
	case *ssa.Convert:
		x.regs[in] = x.convert(in, st)
	case *ssa.TypeAssert:
		x.regs[in] = x.typeAssert(in, st)
	case *ssa.Extract:
		tv := x.val(in.Tuple)
		tup, ok := tv.(Tuple)
		if !ok {
			x.fail("extract from non-tuple %T", tv)
		}
		x.regs[in] = tup[in.Index]
	case *ssa.Call:
		x.regs[in] = x.call(in, in.Common(), st)
	case *ssa.Defer:
		var args []Value
		for _, a := range in.Call.Args {
			args = append(args, x.val(a))
		}
		var fv Value
		if !in.Call.IsInvoke() {
			fv = x.val(in.Call.Value)
		} else {
			fv = x.val(in.Call.Value)
		}
		st.defers = append(st.defers, &deferred{call: &in.Call, args: args, fn: fv, site: in})
	case *ssa.RunDefers:
		ds := st.defers
		st.defers = nil
		for i := len(ds) - 1; i >= 0; i-- {
			x.callWith(ds[i].site, ds[i].call, ds[i].fn, ds[i].args, st)
		}
	case *ssa.Range:
		x.regs[in] = x.rangeInit(in, st)
	case *ssa.Next:
		x.regs[in] = x.rangeNext(in, st)
	case *ssa.Go:
		x.fail("go statement")
	case *ssa.Select:
		x.fail("select statement")
	case *ssa.Send:
		x.fail("channel send")
	case *ssa.MakeChan:
		x.fail("make chan")
	case *ssa.SliceToArrayPointer:
		x.fail("slice to array pointer")
	case *ssa.MultiConvert:
		x.fail("multiconvert")
	default:
		x.fail("unsupported instruction %T", in)
	}
}

func (x *Exec) isCell(a *ssa.Alloc) bool {
	if v, ok := x.cellable[a]; ok {
		return v
	}
	v := cellable(a)
	x.cellable[a] = v
	return v
}

func forallInt(v string, lo, hi Term, body func(i Term) Term, pats ...func(i Term) Term) Term {
	i := Term{v + "!q", SInt}
	b := body(i)
	inner := fmt.Sprintf("(=> (and (<= %s %s) (< %s %s)) %s)", lo.S, i.S, i.S, hi.S, b.S)
	if len(pats) > 0 {
		ps := ""
		for _, p := range pats {
			ps += fmt.Sprintf(" :pattern (%s)", p(i).S)
		}
		inner = fmt.Sprintf("(! %s%s)", inner, ps)
	}
	return Term{fmt.Sprintf("(forall ((%s Int)) %s)", i.S, inner), SBool}
}

// locOf turns a pointer value into a location.
func (x *Exec) locOf(v Value, ptrType types.Type, st *State) *Loc {
	switch v := v.(type) {
	case *Loc:
		return v
	case Term:
		pt, ok := ptrType.Underlying().(*types.Pointer)
		if !ok {
			x.fail("locOf non-pointer type %s", ptrType)
		}
		x.obl("safety[nil-deref]", "safety", "pointer is not nil", st, Not(Eq(v, TNil)))
		return &Loc{Kind: "heap", Ptr: v, Root: pt.Elem()}
	case poison:
		x.fail("pointer %s differs across paths", v.what)
	}
	x.fail("locOf %T", v)
	return nil
}

func (x *Exec) unop(in *ssa.UnOp, st *State) Value {
	switch in.Op {
	case token.MUL:
		l := x.locOf(x.val(in.X), in.X.Type(), st)
		return x.load(l, st)
	case token.NOT:
		return Not(x.term(x.val(in.X)))
	case token.SUB:
		t := x.term(x.val(in.X))
		return app(t.Sort, "-", t)
	case token.ARROW:
		x.fail("channel receive")
	case token.XOR:
		t := x.term(x.val(in.X))
		return x.u.W.UF("bits.not", SInt, t)
	}
	x.fail("unop %s", in.Op)
	return nil
}

func isFloat(t types.Type) bool {
	b, ok := t.Underlying().(*types.Basic)
	return ok && b.Info()&types.IsFloat != 0
}
func isString(t types.Type) bool {
	b, ok := t.Underlying().(*types.Basic)
	return ok && b.Info()&types.IsString != 0
}
func isInteger(t types.Type) bool {
	b, ok := t.Underlying().(*types.Basic)
	return ok && b.Info()&types.IsInteger != 0
}

func (x *Exec) binop(in *ssa.BinOp, st *State) Value {
	a := x.term(x.val(in.X))
	b := x.term(x.val(in.Y))
	t := in.X.Type()
	switch in.Op {
	case token.ADD:
		if isString(t) {
			return app(SStr, "s.cat", a, b)
		}
		r := Add(a, b)
		x.overflow(in, r, st)
		return r
	case token.SUB:
		r := Sub(a, b)
		x.overflow(in, r, st)
		return r
	case token.MUL:
		r := Mul(a, b)
		x.overflow(in, r, st)
		if isFloat(t) && !x.pure && !isNumLit(a) && !isNumLit(b) {
			// sign rules for a product of two unknowns, stated as instances of the theorem: they
			// spare the solver non-linear reasoning for "a non-negative score times a positive
			// factor is non-negative" (only cvc5 found that by itself, in seconds)
			z := Term{"0.0", SReal}
			ra, rb := ToReal(a), ToReal(b)
			x.assume(And(
				Implies(And(Ge(ra, z), Ge(rb, z)), Ge(r, z)),
				Implies(And(Le(ra, z), Le(rb, z)), Ge(r, z)),
				Implies(And(Gt(ra, z), Gt(rb, z)), Gt(r, z)),
				Implies(And(Ge(ra, z), Le(rb, z)), Le(r, z)),
				Implies(And(Le(ra, z), Ge(rb, z)), Le(r, z))))
		}
		return r
	case token.QUO:
		if isFloat(t) {
			// division by zero on floats does not panic; over the reals it is left unspecified by the solver
			return app(SReal, "/", ToReal(a), ToReal(b))
		}
		x.obl("safety[div-zero]", "safety", "integer division by zero", st, Not(Eq(b, IntLit(0))))
		return app(SInt, "gdiv", a, b)
	case token.REM:
		x.obl("safety[div-zero]", "safety", "integer remainder by zero", st, Not(Eq(b, IntLit(0))))
		return app(SInt, "gmod", a, b)
	case token.EQL:
		return x.eq(a, b, t)
	case token.NEQ:
		return Not(x.eq(a, b, t))
	case token.LSS:
		if isString(t) {
			return app(SBool, "s.lt", a, b)
		}
		return Lt(a, b)
	case token.LEQ:
		if isString(t) {
			return Or(app(SBool, "s.lt", a, b), Eq(a, b))
		}
		return Le(a, b)
	case token.GTR:
		if isString(t) {
			return app(SBool, "s.lt", b, a)
		}
		return Gt(a, b)
	case token.GEQ:
		if isString(t) {
			return Or(app(SBool, "s.lt", b, a), Eq(a, b))
		}
		return Ge(a, b)
	case token.AND, token.OR, token.XOR, token.SHL, token.SHR, token.AND_NOT:
		if a.Sort == SBool {
			switch in.Op {
			case token.AND:
				return And(a, b)
			case token.OR:
				return Or(a, b)
			}
		}
		r := x.u.W.UF("bits."+in.Op.String(), SInt, a, b)
		if tb, ok := in.Type().Underlying().(*types.Basic); ok && tb.Info()&types.IsInteger != 0 {
			lo, hi := intRange(tb)
			x.assume(And(Ge(r, IntLitStr(lo)), Le(r, IntLitStr(hi))))
		}
		return r
	}
	x.fail("binop %s", in.Op)
	return nil
}

func (x *Exec) eq(a, b Term, t types.Type) Term {
	return Eq(a, b)
}

func isNumLit(t Term) bool {
	s := t.S
	if s == "" {
		return false
	}
	c := s[0]
	return (c >= '0' && c <= '9') || strings.HasPrefix(s, "(- ") && len(s) > 3 && s[3] >= '0' && s[3] <= '9' || strings.HasPrefix(s, "(/ ")
}

// overflow emits a no-overflow obligation when the function opted in.
func (x *Exec) overflow(in *ssa.BinOp, r Term, st *State) {
	if x.pure || !isInteger(in.Type()) {
		return
	}
	if b, ok := in.Type().Underlying().(*types.Basic); ok && narrowCounter(b) {
		// machine arithmetic on integer types narrower than a word is never treated as
		// mathematical: a 16- or 32-bit counter that wraps changes a result without any panic.
		// (byte / rune arithmetic - character code - is left to the opt-in rule below.)
		if _, c1 := in.X.(*ssa.Const); c1 {
			if _, c2 := in.Y.(*ssa.Const); c2 {
				return
			}
		}
		lo, hi := intRange(b)
		x.obl("safety[narrow-overflow "+in.Op.String()+" "+b.Name()+"]", "safety", "arithmetic on a narrow integer type stays in its range (no silent wrap-around)", st, And(Ge(r, IntLitStr(lo)), Le(r, IntLitStr(hi))))
		return
	}
	if x.fc == nil || x.fc.Opts["overflow"] == "" {
		// exploration mode (GOVC_OVERFLOW=mul): multiplications everywhere - where realistic
		// overflows live (limit*2, len*8/10); not part of any registered check
		if !(os.Getenv("GOVC_OVERFLOW") == "mul" && in.Op == token.MUL) {
			return
		}
	}
	if _, ok := in.X.(*ssa.Const); ok {
		if _, ok2 := in.Y.(*ssa.Const); ok2 {
			return
		}
	}
	lo, hi := intRange(in.Type().Underlying().(*types.Basic))
	x.obl("safety[no-overflow "+in.Op.String()+"]", "safety", "integer arithmetic stays in range", st, And(Ge(r, IntLitStr(lo)), Le(r, IntLitStr(hi))))
}

func (x *Exec) indexAddr(in *ssa.IndexAddr, st *State) Value {
	idx := x.term(x.val(in.Index))
	switch t := in.X.Type().Underlying().(type) {
	case *types.Slice:
		s := x.term(x.val(in.X))
		x.obl("safety[index]", "safety", "slice index in range", st, And(Ge(idx, IntLit(0)), Lt(idx, SlLen(s))))
		return &Loc{Kind: "heap", Ptr: Elem(s, idx), Root: t.Elem()}
	case *types.Pointer:
		at := t.Elem().Underlying().(*types.Array)
		x.obl("safety[index]", "safety", "array index in range", st, And(Ge(idx, IntLit(0)), Lt(idx, IntLit(at.Len()))))
		bv := x.val(in.X)
		l := x.locOf(bv, in.X.Type(), st)
		if l.Kind == "heap" && len(l.Path) == 0 {
			// flattened heap array
			return &Loc{Kind: "heap", Ptr: PtrAdd(l.Ptr, idx), Root: at.Elem()}
		}
		nl := &Loc{Kind: l.Kind, Key: l.Key, Ptr: l.Ptr, Root: l.Root}
		i2 := idx
		nl.Path = append(append([]PathElem(nil), l.Path...), PathElem{Index: &i2, T: t.Elem()})
		return nl
	}
	x.fail("IndexAddr on %s", in.X.Type())
	return nil
}

// ---------------------------------------------------------------------------
// Maps

func mapHeaps(w *World, mt *types.Map) (md, mv, mc string, ks, vs string) {
	k := typeKey(mt)
	w.heapTypes["MV."+k] = mt
	ks, vs = w.SortOf(mt.Key()), w.SortOf(mt.Elem())
	return "MD." + k, "MV." + k, "MC." + k, ks, vs
}

func (x *Exec) mapParts(m Term, mt *types.Map, st *State) (dom, val, cnt Term) {
	md, mv, mc, ks, vs := mapHeaps(x.u.W, mt)
	dom = Select(st.Heap(md, ArraySort(SPtr, ArraySort(ks, SBool))), m)
	val = Select(st.Heap(mv, ArraySort(SPtr, ArraySort(ks, vs))), m)
	cnt = Select(st.Heap(mc, ArraySort(SPtr, SInt)), m)
	return
}

func (x *Exec) lookup(in *ssa.Lookup, st *State) Value {
	if mt, ok := in.X.Type().Underlying().(*types.Map); ok {
		m := x.term(x.val(in.X))
		k := x.term(x.val(in.Index))
		x.contentsGuard(m, false, st)
		dom, val, cnt := x.mapParts(m, mt, st)
		present := Select(dom, k)
		x.assume(Implies(present, Ge(cnt, IntLit(1))))
		v := Ite(present, Select(val, k), x.u.W.Zero(mt.Elem()))
		x.validOnLoad(v, mt.Elem(), st)
		if in.CommaOk {
			return Tuple{v, present}
		}
		return v
	}
	// string index
	s := x.term(x.val(in.X))
	idx := x.term(x.val(in.Index))
	x.obl("safety[index]", "safety", "string index in range", st, And(Ge(idx, IntLit(0)), Lt(idx, app(SInt, "s.len", s))))
	r := app(SInt, "s.at", s, idx)
	x.assume(And(Ge(r, IntLit(0)), Le(r, IntLit(255))))
	return r
}

func (x *Exec) mapUpdate(m Term, mt *types.Map, k, v Term, st *State) {
	x.contentsGuard(m, true, st)
	md, mv, mc, ks, vs := mapHeaps(x.u.W, mt)
	if o, ok := x.u.guardOrigin[m.S]; ok && o.addOnly && !x.pure {
		dom0, val0, _ := x.mapParts(m, mt, st)
		v0 := v
		if vs == SReal {
			v0 = ToReal(v)
		}
		x.obl("interference[add-only "+o.name+"]", "lock", "an entry of "+o.name+" is never replaced: the key is absent, or already maps to the value stored (other goroutines may hold the old value)", st, Or(Not(Select(dom0, k)), Eq(Select(val0, k), v0)))
	}
	x.obl("safety[nil-map-write]", "safety", "assignment to entry in nil map", st, Not(Eq(m, TNil)))
	x.frameCheck(md, m, st)
	hd := st.Heap(md, ArraySort(SPtr, ArraySort(ks, SBool)))
	hv := st.Heap(mv, ArraySort(SPtr, ArraySort(ks, vs)))
	hc := st.Heap(mc, ArraySort(SPtr, SInt))
	dom := Select(hd, m)
	if vs == SReal {
		v = ToReal(v)
	}
	st.SetHeap(mc, Store(hc, m, Ite(Select(dom, k), Select(hc, m), Add(Select(hc, m), IntLit(1)))))
	st.SetHeap(md, Store(hd, m, Store(dom, k, TTrue)))
	st.SetHeap(mv, Store(hv, m, Store(Select(hv, m), k, v)))
	x.assume(Ge(Select(hc, m), IntLit(0)))
}

func (x *Exec) mapDelete(m Term, mt *types.Map, k Term, st *State) {
	x.contentsGuard(m, true, st)
	md, _, mc, ks, _ := mapHeaps(x.u.W, mt)
	if o, ok := x.u.guardOrigin[m.S]; ok && o.addOnly && !x.pure {
		dom0, _, _ := x.mapParts(m, mt, st)
		x.obl("interference[add-only "+o.name+"]", "lock", "no entry of "+o.name+" is ever removed", st, Not(Select(dom0, k)))
	}
	hd := st.Heap(md, ArraySort(SPtr, ArraySort(ks, SBool)))
	hc := st.Heap(mc, ArraySort(SPtr, SInt))
	dom := Select(hd, m)
	// delete on nil map is a no-op
	notNil := Not(Eq(m, TNil))
	if !x.pure && x.frame != nil && !x.frame.any && !x.freshBases[PBase(m).S] {
		goal := Or(Eq(m, TNil), Ge(PBase(m), x.alloc0), x.frame.Writable(md, m))
		x.obl("frame[write "+md+"]", "frame", "delete within modifies clause", st, goal)
	}
	x.assume(Implies(Select(dom, k), Ge(Select(hc, m), IntLit(1))))
	st.SetHeap(mc, Ite(notNil, Store(hc, m, Ite(Select(dom, k), Sub(Select(hc, m), IntLit(1)), Select(hc, m))), hc))
	st.SetHeap(md, Ite(notNil, Store(hd, m, Store(dom, k, TFalse)), hd))
}

func (x *Exec) makeMap(mt *types.Map, st *State) Value {
	md, _, mc, ks, _ := mapHeaps(x.u.W, mt)
	base := x.newBase(st)
	m := MkPtr(base, IntLit(0))
	hd := st.Heap(md, ArraySort(SPtr, ArraySort(ks, SBool)))
	hc := st.Heap(mc, ArraySort(SPtr, SInt))
	st.SetHeap(md, Store(hd, m, ConstArray(ArraySort(ks, SBool), TFalse)))
	st.SetHeap(mc, Store(hc, m, IntLit(0)))
	return m
}

func (x *Exec) mapLen(m Term, mt *types.Map, st *State) Term {
	dom, _, cnt := x.mapParts(m, mt, st)
	x.assume(And(Ge(cnt, IntLit(0)), Le(cnt, IntLit(1<<47))))
	// empty iff count zero
	ks := x.u.W.SortOf(mt.Key())
	x.assume(Term{fmt.Sprintf("(=> (= %s 0) (forall ((k!q %s)) (not (select %s k!q))))", cnt.S, ks, dom.S), SBool})
	return cnt
}

// ---------------------------------------------------------------------------
// Range over map / string

func (x *Exec) rangeInit(in *ssa.Range, st *State) Value {
	switch t := in.X.Type().Underlying().(type) {
	case *types.Map:
		ks := x.u.W.SortOf(t.Key())
		x.contentsGuard(x.term(x.val(in.X)), false, st)
		it := &MapIter{Map: x.term(x.val(in.X)), MapType: t, Visited: ConstArray(ArraySort(ks, SBool), TFalse), N: IntLit(0)}
		st.cells[in] = it
		return &Loc{Kind: "cell", Key: in}
	case *types.Basic:
		it := &MapIter{IsStr: true, Str: x.term(x.val(in.X)), Pos: IntLit(0), N: IntLit(0), Visited: TTrue}
		st.cells[in] = it
		return &Loc{Kind: "cell", Key: in}
	}
	x.fail("range over %s", in.X.Type())
	return nil
}

func (x *Exec) rangeNext(in *ssa.Next, st *State) Value {
	r, ok := in.Iter.(*ssa.Range)
	if !ok {
		x.fail("next on non-range")
	}
	it, ok := st.cells[r].(*MapIter)
	if !ok {
		x.fail("iterator state lost")
	}
	w := x.u.W
	if it.IsStr {
		// position strictly increases; rune is unknown
		okv := w.Fresh("next.ok", SBool)
		slen := app(SInt, "s.len", it.Str)
		pos := it.N // current byte offset
		x.assume(Eq(okv, Lt(pos, slen)))
		width := w.Fresh("rune.w", SInt)
		x.assume(And(Ge(width, IntLit(1)), Le(width, IntLit(4)), Implies(okv, Le(Add(pos, width), slen))))
		rn := w.UF("s.runeAt", SInt, it.Str, pos)
		x.assume(And(Ge(rn, IntLit(0)), Le(rn, IntLit(1114111))))
		ni := *it
		ni.N = Ite(okv, Add(pos, width), pos)
		st.cells[r] = &ni
		return Tuple{okv, pos, rn}
	}
	ks := w.SortOf(it.MapType.Key())
	dom, val, cnt := x.mapParts(it.Map, it.MapType, st)
	okv := w.Fresh("next.ok", SBool)
	k := w.Fresh("next.k", ks)
	x.assume(Implies(okv, And(Select(dom, k), Not(Select(it.Visited, k)), Lt(it.N, cnt))))
	x.assume(Implies(Not(okv), And(Eq(it.N, cnt), Term{fmt.Sprintf("(forall ((k!q %s)) (=> (select %s k!q) (select %s k!q)))", ks, dom.S, it.Visited.S), SBool})))
	x.assume(Ge(it.N, IntLit(0)))
	ni := *it
	ni.Visited = Ite(okv, Store(it.Visited, k, TTrue), it.Visited)
	ni.N = Ite(okv, Add(it.N, IntLit(1)), it.N)
	st.cells[r] = &ni
	v := Select(val, k)
	x.validOnLoad(v, it.MapType.Elem(), st)
	x.validOnLoad(k, it.MapType.Key(), st)
	return Tuple{okv, k, v}
}

// ---------------------------------------------------------------------------
// Slices

func (x *Exec) makeSlice(in *ssa.MakeSlice, st *State) Value {
	l := x.term(x.val(in.Len))
	c := x.term(x.val(in.Cap))
	et := in.Type().Underlying().(*types.Slice).Elem()
	x.obl("safety[make-len]", "safety", "makeslice: len out of range", st, And(Ge(l, IntLit(0)), Le(l, IntLit(1<<50))))
	x.obl("safety[make-cap]", "safety", "makeslice: cap out of range", st, And(Ge(c, l), Le(c, IntLit(1<<50))))
	x.allocBound(c, st, "slice capacity")
	base := x.newBase(st)
	hn, hs := x.heapOf(et)
	h := st.Heap(hn, hs)
	z := x.u.W.Zero(et)
	res := MkSlice(MkPtr(base, IntLit(0)), l, c)
	if !x.pure {
		rs := x.u.W.Fresh("mk", SSlice)
		x.assume(Eq(rs, res))
		res = rs
	}
	x.assume(forallInt("i", IntLit(0), c, func(i Term) Term { return Eq(Select(h, Elem(res, i)), z) }, func(i Term) Term { return Elem(res, i) }))
	return res
}

func (x *Exec) sliceOp(in *ssa.Slice, st *State) Value {
	var lo, hi, max *Term
	get := func(v ssa.Value) *Term {
		if v == nil {
			return nil
		}
		t := x.term(x.val(v))
		return &t
	}
	lo, hi, max = get(in.Low), get(in.High), get(in.Max)
	zero := IntLit(0)
	switch t := in.X.Type().Underlying().(type) {
	case *types.Slice:
		s := x.term(x.val(in.X))
		l := zero
		if lo != nil {
			l = *lo
		}
		h := SlLen(s)
		if hi != nil {
			h = *hi
		}
		c := SlCap(s)
		if max != nil {
			x.obl("safety[slice-bounds]", "safety", "slice bounds out of range (max)", st, And(Le(*max, SlCap(s)), Le(h, *max)))
			c = *max
		}
		x.obl("safety[slice-bounds]", "safety", "slice bounds out of range", st, And(Le(zero, l), Le(l, h), Le(h, SlCap(s))))
		return MkSlice(PtrAdd(SlPtr(s), l), Sub(h, l), Sub(c, l))
	case *types.Basic: // string
		s := x.term(x.val(in.X))
		l := zero
		if lo != nil {
			l = *lo
		}
		h := app(SInt, "s.len", s)
		if hi != nil {
			h = *hi
		}
		x.obl("safety[slice-bounds]", "safety", "string slice bounds out of range", st, And(Le(zero, l), Le(l, h), Le(h, app(SInt, "s.len", s))))
		r := app(SStr, "s.sub", s, l, h)
		x.assume(Eq(app(SInt, "s.len", r), Sub(h, l)))
		return r
	case *types.Pointer:
		at := t.Elem().Underlying().(*types.Array)
		lv := x.locOf(x.val(in.X), in.X.Type(), st)
		if lv.Kind != "heap" || len(lv.Path) != 0 {
			x.fail("slicing a non-heap array")
		}
		l := zero
		if lo != nil {
			l = *lo
		}
		h := IntLit(at.Len())
		if hi != nil {
			h = *hi
		}
		x.obl("safety[slice-bounds]", "safety", "slice bounds out of range", st, And(Le(zero, l), Le(l, h), Le(h, IntLit(at.Len()))))
		return MkSlice(PtrAdd(lv.Ptr, l), Sub(h, l), Sub(IntLit(at.Len()), l))
	}
	x.fail("slice of %s", in.X.Type())
	return nil
}

// appendOp models append(s, t...).
func (x *Exec) appendOp(s, t Term, st *State, et types.Type, single *Term) Term {
	w := x.u.W
	hn, hs := x.heapOf(et)
	n := SlLen(s)
	var tl Term
	if single != nil {
		tl = IntLit(1)
	} else {
		tl = SlLen(t)
	}
	newLen := Add(n, tl)
	fits := Le(newLen, SlCap(s))
	base := x.newBase(st)
	newCap := w.Fresh("cap", SInt)
	x.assume(Ge(newCap, newLen))
	// appending nothing returns s unchanged
	rptr := Ite(fits, SlPtr(s), MkPtr(base, IntLit(0)))
	rcap := Ite(fits, SlCap(s), newCap)
	res := MkSlice(rptr, newLen, rcap)
	if !x.pure {
		rs := w.Fresh("app", SSlice)
		x.assume(Eq(rs, res))
		res = rs
	}
	h := st.Heap(hn, hs)
	// fresh case: old elements copied (assumption about fresh memory)
	x.assume(Implies(Not(fits), forallInt("i", IntLit(0), n, func(i Term) Term {
		return Eq(Select(h, Elem(res, i)), Select(h, Elem(s, i)))
	}, func(i Term) Term { return Elem(res, i) }, func(i Term) Term { return Elem(s, i) })))
	// in-place writes must be allowed by the frame
	if !x.pure && x.frame != nil && !x.frame.any && !x.freshBases[PBase(SlPtr(s)).S] {
		p := Elem(s, n)
		goal := Implies(And(fits, Gt(tl, IntLit(0))), Or(Ge(PBase(SlPtr(s)), x.alloc0), x.frame.Writable(hn, p)))
		x.obl("frame[append in place "+hn+"]", "frame", "append within capacity writes the backing array", st, goal)
	}
	if single != nil {
		v := *single
		_, vsort := arraySorts(hs)
		if vsort == SReal {
			v = ToReal(v)
		}
		st.SetHeap(hn, Store(h, Elem(res, n), v))
		return res
	}
	if x.pure {
		x.fail("general append in pure context")
	}
	nh := w.Fresh(hn+"@app", hs)
	x.assume(forallInt("i", IntLit(0), tl, func(i Term) Term {
		return Eq(Select(nh, Elem(res, Add(n, i))), Select(h, Elem(t, i)))
	}, func(i Term) Term { return Elem(t, i) }))
	p := Term{"p!a", SPtr}
	inRange := And(Eq(PBase(p), PBase(SlPtr(res))), Ge(PIdx(p), Add(PIdx(SlPtr(res)), n)), Lt(PIdx(p), Add(PIdx(SlPtr(res)), newLen)))
	x.assume(Term{fmt.Sprintf("(forall ((p!a Ptr)) (! (=> (not %s) (= (select %s p!a) (select %s p!a))) :pattern ((select %s p!a))))", inRange.S, nh.S, h.S, nh.S), SBool})
	st.SetHeap(hn, nh)
	return res
}

// ---------------------------------------------------------------------------
// Interfaces, conversions

func (x *Exec) makeInterface(t types.Type, v Value) Value {
	w := x.u.W
	vt := x.term(v)
	tag := w.TypeTag(t)
	name := "box." + typeKey(t)
	r := w.UF(name, SIface, vt)
	x.u.boxed[r.S] = boxedVal{T: t, V: v}
	un := w.UF("un"+name, vt.Sort, r)
	if !x.pure {
		x.assume(Eq(un, vt))
		x.assume(Eq(app(SInt, "iface.tag", r), tag))
	}
	return r
}

func (x *Exec) typeAssert(in *ssa.TypeAssert, st *State) Value {
	w := x.u.W
	iv := x.term(x.val(in.X))
	if _, isIface := in.AssertedType.Underlying().(*types.Interface); isIface {
		// interface-to-interface assertion
		okv := w.UF("implements."+typeKey(in.AssertedType), SBool, iv)
		if in.CommaOk {
			return Tuple{Ite(okv, iv, Term{"iface.nil", SIface}), okv}
		}
		x.obl("safety[type-assert]", "safety", "interface conversion", st, okv)
		return iv
	}
	tag := w.TypeTag(in.AssertedType)
	is := Eq(app(SInt, "iface.tag", iv), tag)
	sort := w.SortOf(in.AssertedType)
	un := w.UF("unbox."+typeKey(in.AssertedType), sort, iv)
	x.validOnLoad(un, in.AssertedType, st)
	if in.CommaOk {
		return Tuple{Ite(is, un, w.Zero(in.AssertedType)), is}
	}
	x.obl("safety[type-assert]", "safety", "interface conversion: dynamic type is "+in.AssertedType.String(), st, is)
	return un
}

func (x *Exec) convert(in *ssa.Convert, st *State) Value {
	w := x.u.W
	v := x.term(x.val(in.X))
	from, to := in.X.Type().Underlying(), in.Type().Underlying()
	fb, fok := from.(*types.Basic)
	tb, tok := to.(*types.Basic)
	if fok && tok {
		switch {
		case fb.Info()&types.IsInteger != 0 && tb.Info()&types.IsFloat != 0:
			return ToReal(v)
		case fb.Info()&types.IsFloat != 0 && tb.Info()&types.IsInteger != 0:
			r := app(SInt, "trunc", v)
			if !x.pure && x.fc != nil && x.fc.Opts["overflow"] != "" {
				// a float outside the target range converts to an implementation-specific value (on
				// amd64 the minimum integer): in functions that opted into machine arithmetic the
				// operand must be in range
				tlo, thi := intRange(tb)
				x.obl("safety[convert-range]", "safety", "float converted to "+tb.Name()+" is within its range", st, And(Ge(r, IntLitStr(tlo)), Le(r, IntLitStr(thi))))
			}
			return r
		case fb.Info()&types.IsFloat != 0 && tb.Info()&types.IsFloat != 0:
			return v
		case fb.Info()&types.IsInteger != 0 && tb.Info()&types.IsInteger != 0:
			flo, fhi := intRange(fb)
			tlo, thi := intRange(tb)
			if rangeWithin(flo, fhi, tlo, thi) {
				return v
			}
			// narrowing: wraps; model as value when it fits, otherwise unknown in range
			r := w.Fresh("conv", SInt)
			fitsT := And(Ge(v, IntLitStr(tlo)), Le(v, IntLitStr(thi)))
			x.assume(Implies(fitsT, Eq(r, v)))
			x.assume(And(Ge(r, IntLitStr(tlo)), Le(r, IntLitStr(thi))))
			if x.pure {
				return v
			}
			return r
		case fb.Info()&types.IsInteger != 0 && tb.Info()&types.IsString != 0:
			return w.UF("s.fromRune", SStr, v)
		case fb.Info()&types.IsString != 0 && tb.Info()&types.IsString != 0:
			return v
		}
	}
	// string <-> []byte / []rune
	if _, ok := to.(*types.Slice); ok && fok && fb.Info()&types.IsString != 0 {
		et := to.(*types.Slice).Elem()
		base := x.newBase(st)
		var l Term
		if isByte(et) {
			l = app(SInt, "s.len", v)
			hn, hs := x.heapOf(et)
			h := st.Heap(hn, hs)
			x.assume(forallInt("i", IntLit(0), l, func(i Term) Term { return Eq(Select(h, MkPtr(base, i)), app(SInt, "s.at", v, i)) }))
		} else {
			l = w.UF("s.runeCount", SInt, v)
			x.assume(And(Ge(l, IntLit(0)), Le(l, app(SInt, "s.len", v))))
			x.assume(Implies(Gt(app(SInt, "s.len", v), IntLit(0)), Gt(l, IntLit(0))))
			hn, hs := x.heapOf(et)
			h := st.Heap(hn, hs)
			x.assume(forallInt("i", IntLit(0), l, func(i Term) Term { return Eq(Select(h, MkPtr(base, i)), w.UF("s.runeN", SInt, v, i)) }))
		}
		return MkSlice(MkPtr(base, IntLit(0)), l, l)
	}
	if _, ok := from.(*types.Slice); ok && tok && tb.Info()&types.IsString != 0 {
		et := from.(*types.Slice).Elem()
		hn, hs := x.heapOf(et)
		h := st.Heap(hn, hs)
		// string built from the slice contents: uninterpreted in (slice, heap)
		r := w.UF("s.fromSlice."+typeKey(et), SStr, v, h)
		if isByte(et) {
			x.assume(Eq(app(SInt, "s.len", r), SlLen(v)))
		}
		return r
	}
	if _, ok := to.(*types.Pointer); ok {
		return v
	}
	x.fail("convert %s -> %s", in.X.Type(), in.Type())
	return nil
}

func isByte(t types.Type) bool {
	b, ok := t.Underlying().(*types.Basic)
	return ok && (b.Kind() == types.Uint8)
}

func rangeWithin(flo, fhi, tlo, thi string) bool {
	c := func(s string) constant.Value { return constant.MakeFromLiteral(s, token.INT, 0) }
	neg := func(s string) constant.Value {
		if s[0] == '-' {
			return constant.UnaryOp(token.SUB, c(s[1:]), 0)
		}
		return c(s)
	}
	return constant.Compare(neg(flo), token.GEQ, neg(tlo)) && constant.Compare(neg(fhi), token.LEQ, neg(thi))
}

// allocBound: in functions that opt in (opt alloc-bound N: loaders of untrusted files), every
// allocation size is an obligation: at most N elements, whatever the file says.
func (x *Exec) allocBound(n Term, st *State, what string) {
	if x.pure || x.fc == nil || x.fc.Opts["alloc-bound"] == "" {
		return
	}
	x.obl("alloc[bounded]", "safety", what+" is bounded independently of the file content (opt alloc-bound "+x.fc.Opts["alloc-bound"]+")", st, Le(n, IntLitStr(x.fc.Opts["alloc-bound"])))
}


// initialisedGlobal: the value of a package-level variable of the repository that no function
// writes at run time and whose package initialiser stores into it exactly once, a constant or a
// pure library call over constants.
func (x *Exec) initialisedGlobal(key interface{}, st *State) (Term, bool) {
	g, ok := key.(*ssa.Global)
	if !ok || g.Pkg == nil || x.pure {
		return Term{}, false
	}
	e := x.u.eng
	e.driftMu.Lock()
	if e.rtWritten == nil {
		e.rtWritten = runtimeWrittenGlobals(e)
	}
	_, written := e.rtWritten[g]
	e.driftMu.Unlock()
	if written || !strings.HasPrefix(g.Pkg.Pkg.Path(), modulePath) {
		return Term{}, false
	}
	initFn := g.Pkg.Func("init")
	if initFn == nil {
		return Term{}, false
	}
	var val ssa.Value
	n := 0
	for _, b := range initFn.Blocks {
		for _, in := range b.Instrs {
			if sto, ok := in.(*ssa.Store); ok && sto.Addr == ssa.Value(g) {
				val = sto.Val
				n++
			}
		}
	}
	if n != 1 {
		return Term{}, false
	}
	val = resolveNaive(val)
	switch v := val.(type) {
	case *ssa.Const:
		if _, basic := v.Type().Underlying().(*types.Basic); basic && v.Value != nil {
			return x.u.W.ConstTerm(v.Value, v.Type()), true
		}
	case *ssa.Call:
		callee := v.Common().StaticCallee()
		if callee == nil || !isPureExternal(callee) {
			return Term{}, false
		}
		var args []Value
		for _, a := range v.Common().Args {
			c, ok := resolveNaive(a).(*ssa.Const)
			if !ok || c.Value == nil {
				return Term{}, false
			}
			if _, basic := c.Type().Underlying().(*types.Basic); !basic {
				return Term{}, false
			}
			args = append(args, x.u.W.ConstTerm(c.Value, c.Type()))
		}
		r := x.pureCall(callee, args, st)
		if t, ok := r.(Term); ok {
			return t, true
		}
	}
	return Term{}, false
}

// narrowCounter: integer types narrower than 64 bits other than the character types byte / rune.
func narrowCounter(b *types.Basic) bool {
	switch b.Kind() {
	case types.Int8, types.Int16, types.Uint16:
		return true
	case types.Uint8:
		return b.Name() != "byte"
	case types.Int32:
		return b.Name() != "rune"
	case types.Uint32:
		return true
	}
	return false
}
