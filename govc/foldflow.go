package main

// static kind "fold-flow": a declared and checked dependency contract. For each listed
// "function:param" the obligation is that the function's result and effects depend on the string
// parameter only through its case folding: the raw-case value may flow into case-folding library
// functions (whose result is clean), into case-commuting normalisers (whose result is still raw),
// into callees (analysed in turn), into fields declared unobserved, and into diagnostic output;
// it must not reach a comparison, a map key, a substring test, a byte/rune inspection, a heap
// field, an unknown function, or the function's result. Forward dataflow on the SSA (flow-sensitive
// for local variables, so that `s = strings.ToLower(s)` cleans s).

import (
	"fmt"
	"go/constant"
	"go/token"
	"go/types"
	"sort"
	"strings"

	"golang.org/x/tools/go/ssa"
	"golang.org/x/tools/go/ssa/ssautil"
)

// library functions: argument positions that may receive raw-case text, and whether the result
// still carries it.
type foldLib struct {
	rawArgs map[int]bool // nil = every argument
	carries bool         // result is raw-case text (a normaliser); false: result is clean
}

var foldLibTable = map[string]foldLib{
	"strings.ToLower": {nil, false}, "strings.ToUpper": {nil, false}, "strings.EqualFold": {nil, false}, "strings.ToTitle": {nil, false},
	"unicode.ToLower": {nil, false}, "unicode.ToUpper": {nil, false}, "unicode.IsLetter": {nil, false}, "unicode.IsNumber": {nil, false},
	"unicode.IsDigit": {nil, false}, "unicode.IsSpace": {nil, false}, "unicode.IsPunct": {nil, false}, "unicode.IsControl": {nil, false},
	"unicode/utf8.ValidString": {nil, false}, "unicode/utf8.RuneCountInString": {nil, false},
	"github.com/sahilm/fuzzy.Find": {map[int]bool{0: true}, false}, "github.com/sahilm/fuzzy.FindNoSort": {map[int]bool{0: true}, false},
	"strings.TrimSpace": {nil, true}, "strings.Fields": {nil, true}, "strings.FieldsFunc": {map[int]bool{0: true}, true}, "strings.Split": {map[int]bool{0: true}, true},
	"strings.Join": {map[int]bool{0: true}, true}, "strings.Trim": {map[int]bool{0: true}, true}, "strings.TrimLeft": {map[int]bool{0: true}, true}, "strings.TrimRight": {map[int]bool{0: true}, true},
	"strings.ReplaceAll": {map[int]bool{0: true}, true}, "strings.Replace": {map[int]bool{0: true}, true}, "strings.Repeat": {map[int]bool{0: true}, true},
	"(*regexp.Regexp).ReplaceAllString": {map[int]bool{1: true}, true},
	"fmt.Sprintf": {nil, true}, "fmt.Sprint": {nil, true}, "fmt.Errorf": {nil, true}, "errors.New": {nil, true},
	"fmt.Printf": {nil, false}, "fmt.Println": {nil, false}, "fmt.Print": {nil, false}, "fmt.Fprintf": {nil, false}, "fmt.Fprintln": {nil, false},
	"log.Printf": {nil, false}, "log.Println": {nil, false},
}

type foldAnalysis struct {
	eng        *Engine
	unobserved map[string]bool // "pkg.Type.Field"
	memo       map[string]*foldSummary
	active     map[string]bool
}

type foldSummary struct {
	resultRaw  bool
	violations []string
}

func (fa *foldAnalysis) pos(in ssa.Instruction) string {
	return shortPos(fa.eng.fset.Position(in.Pos()).String())
}

// analyse fn with the given parameters (by index) and free variables (by index) raw-case.
func (fa *foldAnalysis) analyse(fn *ssa.Function, rawParams map[int]bool, rawFree map[int]bool, depth int) *foldSummary {
	key := fn.String() + fmt.Sprint(sortedIntKeys(rawParams), sortedIntKeys(rawFree))
	if s, ok := fa.memo[key]; ok {
		return s
	}
	if fa.active[key] || depth > 12 {
		return &foldSummary{}
	}
	fa.active[key] = true
	defer delete(fa.active, key)
	sum := &foldSummary{}
	seenV := map[string]bool{}
	viol := func(in ssa.Instruction, f string, a ...interface{}) {
		m := fmt.Sprintf("%s: %s (%s)", fnDisplayName(fn), fmt.Sprintf(f, a...), fa.pos(in))
		if !seenV[m] {
			seenV[m] = true
			sum.violations = append(sum.violations, m)
		}
	}
	raw := map[ssa.Value]bool{} // registers (single assignment): monotone
	for i, p := range fn.Params {
		if rawParams[i] {
			raw[p] = true
		}
	}
	for i, fv := range fn.FreeVars {
		if rawFree[i] {
			raw[fv] = true
		}
	}
	type state map[*ssa.Alloc]bool
	in := map[*ssa.BasicBlock]state{}
	if len(fn.Blocks) == 0 {
		return sum
	}
	in[fn.Blocks[0]] = state{}
	work := []*ssa.BasicBlock{fn.Blocks[0]}
	isRaw := func(v ssa.Value) bool { return raw[v] }
	setRaw := func(v ssa.Value) bool {
		if !raw[v] {
			raw[v] = true
			return true
		}
		return false
	}
	rounds := 0
	for len(work) > 0 && rounds < 20000 {
		rounds++
		b := work[0]
		work = work[1:]
		st := state{}
		for k, v := range in[b] {
			st[k] = v
		}
		changedReg := false
		for _, instr := range b.Instrs {
			switch v := instr.(type) {
			case *ssa.Store:
				if isRaw(v.Val) {
					if al := rootAlloc(v.Addr); al != nil {
						st[al] = true
						break
					}
					if fa.allowedStore(v.Addr) {
						break
					}
					if fvRoot(v.Addr) {
						// captured variable of the enclosing function: its readers are analysed with it raw
						break
					}
					viol(v, "raw-case text is stored into memory that outlives the call")
				} else if al, ok := v.Addr.(*ssa.Alloc); ok {
					st[al] = false // strong update of a local variable
				}
			case *ssa.UnOp:
				switch v.Op {
				case token.MUL:
					if al := rootAlloc(v.X); al != nil {
						if st[al] {
							changedReg = setRaw(v) || changedReg
						}
					} else if isRaw(v.X) {
						changedReg = setRaw(v) || changedReg
					} else if fv, ok := v.X.(*ssa.FreeVar); ok && raw[fv] {
						changedReg = setRaw(v) || changedReg
					}
				case token.ARROW:
				default:
					if isRaw(v.X) {
						changedReg = setRaw(v) || changedReg
					}
				}
			case *ssa.BinOp:
				if isRaw(v.X) || isRaw(v.Y) {
					switch v.Op {
					case token.ADD:
						changedReg = setRaw(v) || changedReg // concatenation
					case token.EQL, token.NEQ, token.LSS, token.GTR, token.LEQ, token.GEQ:
						if isEmptyStringConst(v.X) || isEmptyStringConst(v.Y) {
							break
						}
						viol(v, "raw-case text is compared (%s)", v.Op)
					default:
						viol(v, "raw-case text takes part in %s", v.Op)
					}
				}
			case *ssa.Phi:
				for _, e := range v.Edges {
					if isRaw(e) {
						changedReg = setRaw(v) || changedReg
					}
				}
			case *ssa.ChangeType:
				if isRaw(v.X) {
					changedReg = setRaw(v) || changedReg
				}
			case *ssa.Convert:
				if isRaw(v.X) {
					changedReg = setRaw(v) || changedReg
				}
			case *ssa.MakeInterface:
				if isRaw(v.X) {
					changedReg = setRaw(v) || changedReg
				}
			case *ssa.ChangeInterface:
				if isRaw(v.X) {
					changedReg = setRaw(v) || changedReg
				}
			case *ssa.TypeAssert:
				if isRaw(v.X) {
					changedReg = setRaw(v) || changedReg
				}
			case *ssa.Extract:
				if isRaw(v.Tuple) {
					changedReg = setRaw(v) || changedReg
				}
			case *ssa.Slice:
				if isRaw(v.X) {
					changedReg = setRaw(v) || changedReg
				} else if al := rootAlloc(v.X); al != nil && st[al] {
					changedReg = setRaw(v) || changedReg
				}
			case *ssa.IndexAddr:
				if isRaw(v.X) {
					changedReg = setRaw(v) || changedReg // address into a raw container: loads are raw
				}
			case *ssa.Index:
				if isRaw(v.X) {
					changedReg = setRaw(v) || changedReg
				}
			case *ssa.FieldAddr, *ssa.Field:
			case *ssa.Range:
				if isRaw(v.X) {
					changedReg = setRaw(v) || changedReg
				}
			case *ssa.Next:
				if isRaw(v.Iter) {
					changedReg = setRaw(v) || changedReg
				}
			case *ssa.Lookup:
				if isRaw(v.Index) {
					if _, isMap := v.X.Type().Underlying().(*types.Map); isMap {
						viol(v, "raw-case text is used as a map key")
					} else {
						viol(v, "raw-case text indexes a string")
					}
				}
				if isRaw(v.X) {
					changedReg = setRaw(v) || changedReg
				}
			case *ssa.MapUpdate:
				if isRaw(v.Key) {
					viol(v, "raw-case text is used as a map key")
				}
				if isRaw(v.Value) {
					if al := rootAllocValue(v.Map); al != nil {
						if a2, ok := al.(*ssa.Alloc); ok {
							st[a2] = true
							break
						}
					}
					viol(v, "raw-case text is stored into a map that outlives the call")
				}
			case *ssa.MakeClosure:
				for _, bnd := range v.Bindings {
					if isRaw(bnd) || (rootAlloc(bnd) != nil && st[rootAlloc(bnd)]) {
						changedReg = setRaw(v) || changedReg
					}
				}
			case *ssa.Return:
				for _, r := range v.Results {
					if isRaw(r) {
						sum.resultRaw = true
					}
				}
			case *ssa.Go, *ssa.Defer:
				c := v.(ssa.CallInstruction).Common()
				for _, a := range c.Args {
					if isRaw(a) {
						viol(v, "raw-case text passed to a deferred / concurrent call")
					}
				}
			case *ssa.Call:
				if fa.call(v, fn, isRaw, func(al *ssa.Alloc) bool { return st[al] }, viol, depth) {
					changedReg = setRaw(v) || changedReg
				}
			}
		}
		for _, s := range b.Succs {
			old, seen := in[s]
			ns := state{}
			for k, v := range old {
				ns[k] = v
			}
			ch := !seen
			for k, v := range st {
				if v && !ns[k] {
					ns[k] = true
					ch = true
				}
			}
			if ch || changedReg {
				in[s] = ns
				work = append(work, s)
			}
		}
		if changedReg && len(b.Succs) == 0 {
			work = append(work, fn.Blocks[0])
		}
	}
	sort.Strings(sum.violations)
	fa.memo[key] = sum
	return sum
}

func isEmptyStringConst(v ssa.Value) bool {
	c, ok := v.(*ssa.Const)
	return ok && c.Value != nil && c.Value.Kind() == constant.String && constant.StringVal(c.Value) == ""
}

func fvRoot(v ssa.Value) bool {
	for i := 0; i < 6; i++ {
		switch x := v.(type) {
		case *ssa.FreeVar:
			return true
		case *ssa.FieldAddr:
			v = x.X
		case *ssa.IndexAddr:
			v = x.X
		default:
			return false
		}
	}
	return false
}

func (fa *foldAnalysis) allowedStore(addr ssa.Value) bool {
	f, ok := addr.(*ssa.FieldAddr)
	if !ok {
		return false
	}
	pt, ok := f.X.Type().Underlying().(*types.Pointer)
	if !ok {
		return false
	}
	named, ok := pt.Elem().(*types.Named)
	if !ok {
		return false
	}
	st, ok := named.Underlying().(*types.Struct)
	if !ok {
		return false
	}
	return fa.unobserved[named.Obj().Pkg().Name()+"."+named.Obj().Name()+"."+st.Field(f.Field).Name()]
}

// call: returns whether the call's result is raw-case.
func (fa *foldAnalysis) call(c *ssa.Call, fn *ssa.Function, isRaw func(ssa.Value) bool, allocRaw func(*ssa.Alloc) bool, viol func(ssa.Instruction, string, ...interface{}), depth int) bool {
	com := c.Common()
	argRaw := func(a ssa.Value) bool {
		if isRaw(a) {
			return true
		}
		if al := rootAlloc(a); al != nil && allocRaw(al) {
			// the address of a raw local is passed
			return true
		}
		return false
	}
	anyRaw := false
	for _, a := range com.Args {
		if argRaw(a) {
			anyRaw = true
		}
	}
	if bi, ok := com.Value.(*ssa.Builtin); ok {
		switch bi.Name() {
		case "append", "copy", "min", "max":
			return anyRaw
		case "len", "cap":
			// the byte length of a string is NOT invariant under case folding (the Kelvin sign
			// U+212A is three bytes, its lower case "k" one): a length taken of raw-case text is an
			// observation of it
			if anyRaw && bi.Name() == "len" {
				if _, isStr := com.Args[0].Type().Underlying().(*types.Basic); isStr && !onlyEmptinessTest(c) {
					viol(c, "the byte length of raw-case text is taken (lengths change under case folding, e.g. U+212A)")
				}
			}
			return false
		}
		return false
	}
	if com.IsInvoke() {
		if anyRaw {
			if com.Method.Name() == "Error" || com.Method.Name() == "String" {
				return true
			}
			viol(c, "raw-case text passed to interface method %s, whose case behaviour is unknown", com.Method.Name())
		}
		return false
	}
	callee := com.StaticCallee()
	if callee == nil {
		// call of a function value: a closure built in this function?
		if mc, ok := com.Value.(*ssa.MakeClosure); ok {
			callee = mc.Fn.(*ssa.Function)
			rawFree := map[int]bool{}
			for i, b := range mc.Bindings {
				if argRaw(b) {
					rawFree[i] = true
				}
			}
			rp := map[int]bool{}
			for i, a := range com.Args {
				if argRaw(a) {
					rp[i] = true
				}
			}
			s := fa.analyse(callee, rp, rawFree, depth+1)
			for _, v := range s.violations {
				viol(c, "%s", v)
			}
			return s.resultRaw
		}
		if anyRaw || isRaw(com.Value) {
			viol(c, "raw-case text reaches a call through a function value")
		}
		return false
	}
	full := callee.String()
	if lib, ok := foldLibTable[full]; ok {
		for i, a := range com.Args {
			if argRaw(a) && lib.rawArgs != nil && !lib.rawArgs[i] {
				viol(c, "raw-case text passed as argument %d of %s", i, full)
			}
		}
		// closures handed to library functions see the text they are applied to
		for i, a := range com.Args {
			if mc, ok := a.(*ssa.MakeClosure); ok {
				cfn := mc.Fn.(*ssa.Function)
				rawFree := map[int]bool{}
				for j, b := range mc.Bindings {
					if argRaw(b) {
						rawFree[j] = true
					}
				}
				rp := map[int]bool{}
				if full == "strings.FieldsFunc" && i == 1 && argRaw(com.Args[0]) {
					// the rune predicate is applied to raw text: allowed only if it is itself case-blind
					rp[0] = true
				}
				s := fa.analyse(cfn, rp, rawFree, depth+1)
				for _, v := range s.violations {
					viol(c, "%s", v)
				}
				if s.resultRaw {
					viol(c, "closure passed to %s returns a value that depends on letter case", full)
				}
			}
		}
		return lib.carries && anyRaw
	}
	if !fa.eng.inRepo(callee) || callee.Blocks == nil {
		if anyRaw {
			viol(c, "raw-case text passed to %s, whose case behaviour is unknown", full)
		}
		return false
	}
	if !anyRaw {
		// closures with raw bindings passed down are covered when they are built
		return false
	}
	rp := map[int]bool{}
	for i, a := range com.Args {
		if argRaw(a) {
			rp[i] = true
		}
	}
	s := fa.analyse(callee, rp, nil, depth+1)
	for _, v := range s.violations {
		viol(c, "%s", v)
	}
	return s.resultRaw
}

func sortedIntKeys(m map[int]bool) []int {
	var ks []int
	for k, v := range m {
		if v {
			ks = append(ks, k)
		}
	}
	sort.Ints(ks)
	return ks
}

func init() {
	staticKinds["fold-flow"] = func(eng *Engine, id string, s StaticSpec) ([]*StaticResult, []string) {
		fa := &foldAnalysis{eng: eng, unobserved: map[string]bool{}, memo: map[string]*foldSummary{}, active: map[string]bool{}}
		for _, u := range splitList(s.Args["unobserved"]) {
			fa.unobserved[u] = true
		}
		var out []*StaticResult
		var errs []string
		for _, item := range s.List {
			i := strings.LastIndex(item, ":")
			if i < 0 || strings.HasSuffix(item[:i], ":") {
				errs = append(errs, "fold-flow: want function:param, got "+item)
				continue
			}
			fn, _, err := eng.LookupFunc(item[:i])
			if err != nil {
				errs = append(errs, err.Error())
				continue
			}
			pi := paramIndex(fn, item[i+1:])
			if pi < 0 {
				errs = append(errs, fmt.Sprintf("fold-flow: %s has no parameter %s", fn, item[i+1:]))
				continue
			}
			sum := fa.analyse(fn, map[int]bool{pi: true}, nil, 0)
			v := append([]string{}, sum.violations...)
			if sum.resultRaw && s.Args["carries"] == "" {
				v = append(v, fnDisplayName(fn)+": the result carries the raw-case text")
			}
			r := &StaticResult{Name: fmt.Sprintf("fold-flow %s / respects fold(%s)", fnDisplayName(fn), item[i+1:]), Kind: "fold-flow",
				Text: fmt.Sprintf("the result and effects of %s depend on %s only through its case folding (raw-case text reaches only folding functions, case-commuting normalisers, analysed callees, unobserved fields and diagnostics)", fnDisplayName(fn), item[i+1:]), OK: len(v) == 0}
			if len(v) > 0 {
				if len(v) > 4 {
					v = append(v[:4], fmt.Sprintf("... and %d more", len(v)-4))
				}
				r.Detail = strings.Join(v, "; ")
			}
			out = append(out, r)
		}
		// the unobserved fields are indeed never read outside tests
		for u := range fa.unobserved {
			parts := strings.Split(u, ".")
			if len(parts) != 3 {
				errs = append(errs, "fold-flow: unobserved wants pkg.Type.Field: "+u)
				continue
			}
			readers := fieldReaders(eng, parts[0], parts[1], parts[2])
			r := &StaticResult{Name: fmt.Sprintf("fold-flow unobserved %s / never read", u), Kind: "fold-flow",
				Text: "the field that keeps the raw-case text is read by no function of the repository (outside tests)", OK: len(readers) == 0}
			if len(readers) > 0 {
				r.Detail = "read by " + strings.Join(readers, ", ")
			}
			out = append(out, r)
		}
		sort.Slice(out, func(i, j int) bool { return out[i].Name < out[j].Name })
		return out, errs
	}
}

// fieldReaders: functions that load the named struct field.
func fieldReaders(eng *Engine, pkg, typ, field string) []string {
	var out []string
	seen := map[string]bool{}
	for _, fn := range eng.allRepoFunctions() {
		for _, b := range fn.Blocks {
			for _, in := range b.Instrs {
				var st *types.Struct
				var named *types.Named
				idx := -1
				var val ssa.Value
				switch v := in.(type) {
				case *ssa.FieldAddr:
					if pt, ok := v.X.Type().Underlying().(*types.Pointer); ok {
						named, _ = pt.Elem().(*types.Named)
					}
					idx, val = v.Field, v
				case *ssa.Field:
					named, _ = v.X.Type().(*types.Named)
					idx, val = v.Field, v
				}
				if named == nil || named.Obj().Pkg() == nil || named.Obj().Pkg().Name() != pkg || named.Obj().Name() != typ {
					continue
				}
				st, _ = named.Underlying().(*types.Struct)
				if st == nil || st.Field(idx).Name() != field {
					continue
				}
				// a FieldAddr used only as the address of stores is a write
				read := false
				if _, isField := val.(*ssa.Field); isField {
					read = true
				} else if val.Referrers() != nil {
					for _, r := range *val.Referrers() {
						if s, ok := r.(*ssa.Store); ok && s.Addr == val {
							continue
						}
						if _, ok := r.(*ssa.DebugRef); ok {
							continue
						}
						read = true
					}
				}
				if read && !seen[fnDisplayName(fn)] {
					seen[fnDisplayName(fn)] = true
					out = append(out, fnDisplayName(fn))
				}
			}
		}
	}
	sort.Strings(out)
	return out
}

func (e *Engine) allRepoFunctions() []*ssa.Function {
	var out []*ssa.Function
	for fn := range ssautil.AllFunctions(e.prog) {
		if !e.inRepo(fn) || fn.Blocks == nil {
			continue
		}
		pk, _ := fnKey(fn)
		if strings.Contains(pk, "testutil") || strings.Contains(pk, "sahilm") {
			continue
		}
		out = append(out, fn)
	}
	sort.Slice(out, func(i, j int) bool { return out[i].String() < out[j].String() })
	return out
}

// static kind "atomic-only": list = "pkg.Type.Field"; the field is accessed through sync/atomic
// functions only (its address is taken solely to be passed to them), so concurrent increments
// and reads need no lock and no increment is lost.
func init() {
	staticKinds["atomic-only"] = func(eng *Engine, id string, s StaticSpec) ([]*StaticResult, []string) {
		var out []*StaticResult
		var errs []string
		for _, item := range s.List {
			parts := strings.Split(item, ".")
			if len(parts) != 3 {
				errs = append(errs, "atomic-only wants pkg.Type.Field: "+item)
				continue
			}
			var bad []string
			n := 0
			for _, fn := range eng.allRepoFunctions() {
				loads, stores := 0, 0
				for _, b := range fn.Blocks {
					for _, in := range b.Instrs {
						fa, ok := in.(*ssa.FieldAddr)
						if !ok {
							if f, ok := in.(*ssa.Field); ok {
								if named, _ := f.X.Type().(*types.Named); named != nil && named.Obj().Pkg() != nil && named.Obj().Pkg().Name() == parts[0] && named.Obj().Name() == parts[1] {
									if st, _ := named.Underlying().(*types.Struct); st != nil && st.Field(f.Field).Name() == parts[2] {
										bad = append(bad, fmt.Sprintf("%s reads the field from a copy of the struct (%s)", fnDisplayName(fn), shortPos(eng.fset.Position(in.Pos()).String())))
									}
								}
							}
							continue
						}
						pt, ok := fa.X.Type().Underlying().(*types.Pointer)
						if !ok {
							continue
						}
						named, _ := pt.Elem().(*types.Named)
						if named == nil || named.Obj().Pkg() == nil || named.Obj().Pkg().Name() != parts[0] || named.Obj().Name() != parts[1] {
							continue
						}
						st, _ := named.Underlying().(*types.Struct)
						if st == nil || st.Field(fa.Field).Name() != parts[2] {
							continue
						}
						if fa.Referrers() == nil {
							continue
						}
						for _, r := range *fa.Referrers() {
							switch u := r.(type) {
							case *ssa.DebugRef:
							case *ssa.Call:
								callee := u.Common().StaticCallee()
								if callee != nil && callee.Pkg != nil && callee.Pkg.Pkg.Path() == "sync/atomic" {
									n++
									switch {
									case strings.HasPrefix(callee.Name(), "Load"):
										loads++
									case strings.HasPrefix(callee.Name(), "Store"), strings.HasPrefix(callee.Name(), "Swap"):
										stores++
									}
									continue
								}
								bad = append(bad, fmt.Sprintf("%s passes the field's address to %v (%s)", fnDisplayName(fn), u.Common().Value, shortPos(eng.fset.Position(u.Pos()).String())))
							case *ssa.Store:
								if u.Addr == ssa.Value(fa) {
									if al, ok := fa.X.(*ssa.Alloc); ok && al.Heap {
										continue // initialisation of an object still under construction
									}
									if _, ok := resolveNaive(fa.X).(*ssa.Alloc); ok {
										continue
									}
									bad = append(bad, fmt.Sprintf("%s assigns the field without sync/atomic (%s)", fnDisplayName(fn), shortPos(eng.fset.Position(u.Pos()).String())))
								}
							case *ssa.UnOp:
								bad = append(bad, fmt.Sprintf("%s reads the field without sync/atomic (%s)", fnDisplayName(fn), shortPos(eng.fset.Position(u.Pos()).String())))
							default:
								bad = append(bad, fmt.Sprintf("%s uses the field's address in %T (%s)", fnDisplayName(fn), r, shortPos(eng.fset.Position(r.Pos()).String())))
							}
						}
					}
				}
				if loads > 0 && stores > 0 {
					// an atomic load and an atomic store of the same word in one function are two steps:
					// another goroutine's update between them is overwritten (a lost increment). A
					// read-modify-write has to be one atomic.Add / CompareAndSwap.
					bad = append(bad, fmt.Sprintf("%s loads and stores the field in separate atomic steps (lost update under concurrency; use atomic.Add or a CompareAndSwap loop)", fnDisplayName(fn)))
				}
			}
			sort.Strings(bad)
			r := &StaticResult{Name: fmt.Sprintf("atomic-only %s", item), Kind: "atomic-only",
				Text: fmt.Sprintf("%s is accessed through sync/atomic only (%d call sites)", item, n), OK: len(bad) == 0 && n > 0}
			if len(bad) > 0 {
				r.Detail = strings.Join(bad, "; ")
			} else if n == 0 {
				r.Detail = "no atomic access found"
			}
			out = append(out, r)
		}
		return out, errs
	}
}

// static kind "flag-shorthands": args.pkg = package of the cobra command tree, args.root = name of
// the root command variable. Obligation: no flag name or one-letter shorthand registered on a
// sub-command's own flag set collides with a persistent flag of the root command, nor with another
// flag of the same set (pflag panics on such a collision when the command is executed: the command
// can then never run, whatever its arguments).
func init() {
	staticKinds["flag-shorthands"] = func(eng *Engine, id string, s StaticSpec) ([]*StaticResult, []string) {
		type flagReg struct{ name, short, pos string }
		local := map[string][]flagReg{}      // command variable -> own flags
		persistent := map[string][]flagReg{} // command variable -> persistent flags
		var unknown []string
		pkgName := s.Args["pkg"]
		for _, fn := range eng.allRepoFunctions() {
			pk, _ := fnKey(fn)
			if !strings.HasSuffix(pk, "/"+pkgName) {
				continue
			}
			for _, b := range fn.Blocks {
				for _, in := range b.Instrs {
					c, ok := in.(*ssa.Call)
					if !ok {
						continue
					}
					callee := c.Common().StaticCallee()
					if callee == nil || callee.Pkg == nil || callee.Pkg.Pkg.Path() != "github.com/spf13/pflag" || callee.Signature.Recv() == nil {
						continue
					}
					m := callee.Name()
					if !strings.HasSuffix(m, "P") && !strings.HasPrefix(m, "Bool") && !strings.HasPrefix(m, "String") && !strings.HasPrefix(m, "Int") && !strings.HasPrefix(m, "Float") && !strings.HasPrefix(m, "Duration") && m != "Var" {
						continue
					}
					args := c.Common().Args
					// receiver: Flags() / PersistentFlags() of a command variable
					rc, ok := resolveNaive(args[0]).(*ssa.Call)
					if !ok || rc.Common().StaticCallee() == nil {
						continue
					}
					which := rc.Common().StaticCallee().Name()
					if which != "Flags" && which != "PersistentFlags" {
						continue
					}
					g, isG := rootGlobal(resolveNaive(rc.Common().Args[0]))
					cmdName := "?"
					if isG {
						cmdName = g.Name()
					}
					ni, si := 1, 2
					if m == "VarP" {
						ni, si = 2, 3
					} else if m == "Var" {
						ni, si = 2, -1
					}
					if !strings.HasSuffix(m, "P") {
						si = -1
					}
					strConst := func(i int) (string, bool) {
						if i < 0 || i >= len(args) {
							return "", i < 0
						}
						if k, ok := resolveNaive(args[i]).(*ssa.Const); ok && k.Value != nil && k.Value.Kind() == constant.String {
							return constant.StringVal(k.Value), true
						}
						return "", false
					}
					name, ok1 := strConst(ni)
					short, ok2 := strConst(si)
					pos := shortPos(eng.fset.Position(c.Pos()).String())
					if !ok1 || !ok2 || !isG {
						unknown = append(unknown, fmt.Sprintf("flag registration at %s is not a constant name / shorthand on a command variable", pos))
						continue
					}
					r := flagReg{name, short, pos}
					if which == "Flags" {
						local[cmdName] = append(local[cmdName], r)
					} else {
						persistent[cmdName] = append(persistent[cmdName], r)
					}
				}
			}
		}
		root := s.Args["root"]
		var bad []string
		n := 0
		check := func(cmd string, a flagReg, b flagReg, what string) {
			if a.name == b.name {
				// the same name on a sub-command shadows the persistent flag (pflag skips it when
				// merging); within one flag set it is a redefinition
				if strings.HasPrefix(what, "is registered twice") {
					bad = append(bad, fmt.Sprintf("%s: flag --%s (%s) %s --%s (%s)", cmd, a.name, a.pos, what, b.name, b.pos))
				}
			} else if a.short != "" && a.short == b.short {
				bad = append(bad, fmt.Sprintf("%s: shorthand -%s of --%s (%s) %s -%s of --%s (%s)", cmd, a.short, a.name, a.pos, what, b.short, b.name, b.pos))
			}
		}
		var cmds []string
		for c := range local {
			cmds = append(cmds, c)
		}
		sort.Strings(cmds)
		for _, cmd := range cmds {
			fl := local[cmd]
			for i := range fl {
				n++
				for j := i + 1; j < len(fl); j++ {
					check(cmd, fl[i], fl[j], "is registered twice with")
				}
				if cmd != root {
					for _, p := range persistent[root] {
						check(cmd, fl[i], p, "collides with the persistent")
					}
				}
			}
		}
		pf := persistent[root]
		for i := range pf {
			n++
			for j := i + 1; j < len(pf); j++ {
				check(root, pf[i], pf[j], "is registered twice with")
			}
		}
		bad = append(bad, unknown...)
		sort.Strings(bad)
		r := &StaticResult{Name: "flag-shorthands " + pkgName + " / no flag collides with a persistent flag", Kind: "flag-shorthands",
			Text: fmt.Sprintf("none of the %d flags registered in package %s collides in name or one-letter shorthand with a persistent flag of %s or with a flag of its own set (a collision makes pflag panic when the command runs)", n, pkgName, root), OK: len(bad) == 0 && n > 0}
		if len(bad) > 0 {
			r.Detail = strings.Join(bad, "; ")
		}
		return []*StaticResult{r}, nil
	}
}


// onlyEmptinessTest: every use of the length is a comparison with the constant 0 (len(s) == 0,
// != 0, > 0) - emptiness is invariant under case folding, the length is not.
func onlyEmptinessTest(c *ssa.Call) bool {
	refs := c.Referrers()
	if refs == nil || len(*refs) == 0 {
		return false
	}
	for _, r := range *refs {
		if _, dbg := r.(*ssa.DebugRef); dbg {
			continue
		}
		b, ok := r.(*ssa.BinOp)
		if !ok {
			return false
		}
		isZero := func(v ssa.Value) bool {
			k, ok := v.(*ssa.Const)
			return ok && k.Value != nil && k.Value.ExactString() == "0"
		}
		switch b.Op {
		case token.EQL, token.NEQ:
			if !(isZero(b.X) || isZero(b.Y)) {
				return false
			}
		case token.GTR: // len(s) > 0
			if !(b.X == ssa.Value(c) && isZero(b.Y)) {
				return false
			}
		case token.LSS: // 0 < len(s)
			if !(b.Y == ssa.Value(c) && isZero(b.X)) {
				return false
			}
		default:
			return false
		}
	}
	return true
}
