package main

import (
	"fmt"
	"sort"
	"strings"
	"unicode"
)

// ---------------------------------------------------------------------------
// Spec expression AST

type SExpr struct {
	Kind string // ident, int, real, str, bin, un, call, index, slice, field, quant, old, cond
	Op   string
	Name string
	Args []*SExpr
	Vars []SVar
	Src  string
}

type SVar struct {
	Name string
	Type string // type syntax
}

func (e *SExpr) String() string {
	switch e.Kind {
	case "ident", "int", "real":
		return e.Name
	case "str":
		return fmt.Sprintf("%q", e.Name)
	case "bin":
		return "(" + e.Args[0].String() + " " + e.Op + " " + e.Args[1].String() + ")"
	case "un":
		return e.Op + e.Args[0].String()
	case "call":
		var as []string
		for _, a := range e.Args[1:] {
			as = append(as, a.String())
		}
		return e.Args[0].String() + "(" + strings.Join(as, ", ") + ")"
	case "index":
		return e.Args[0].String() + "[" + e.Args[1].String() + "]"
	case "slice":
		lo, hi := "", ""
		if e.Args[1] != nil {
			lo = e.Args[1].String()
		}
		if e.Args[2] != nil {
			hi = e.Args[2].String()
		}
		return e.Args[0].String() + "[" + lo + ":" + hi + "]"
	case "field":
		return e.Args[0].String() + "." + e.Name
	case "quant":
		var vs []string
		for _, v := range e.Vars {
			vs = append(vs, v.Name+" "+v.Type)
		}
		return "(" + e.Op + " " + strings.Join(vs, ", ") + " :: " + e.Args[0].String() + ")"
	case "old":
		return "old(" + e.Args[0].String() + ")"
	case "cond":
		return "(" + e.Args[0].String() + " ? " + e.Args[1].String() + " : " + e.Args[2].String() + ")"
	}
	return "?"
}

// closedDefinition: a defines clause "f(args) == E" (possibly under forall) whose right-hand side
// mentions nothing but the argument expressions and the bound variables is a global definition
// of the spec function f - the same in every unit, so a caller need not re-establish it. Any
// other defines clause interprets f relative to the unit's own parameters, and callers of the
// unit get the obligation to hold the same interpretation. Returns the function name and a
// canonical right-hand side (arguments replaced by positional placeholders).
func closedDefinition(e *SExpr) (closed bool, fname, canon string) {
	bound := map[string]bool{}
	for e.Kind == "quant" && e.Op == "forall" {
		for _, v := range e.Vars {
			bound[v.Name] = true
		}
		e = e.Args[0]
	}
	if e.Kind != "bin" || (e.Op != "==" && e.Op != "<==>") || e.Args[0].Kind != "call" {
		return false, "", ""
	}
	lhs, rhs := e.Args[0], e.Args[1]
	fname = lhs.Args[0].String()
	args := map[string]int{}
	for i, a := range lhs.Args[1:] {
		args[a.String()] = i
	}
	ok := true
	var walk func(n *SExpr, b map[string]bool)
	walk = func(n *SExpr, b map[string]bool) {
		if n == nil || !ok {
			return
		}
		if _, isArg := args[n.String()]; isArg {
			return
		}
		switch n.Kind {
		case "ident":
			if !b[n.Name] && n.Name != "true" && n.Name != "false" && n.Name != "nil" {
				ok = false
			}
		case "int", "real", "str":
		case "call":
			for _, a := range n.Args[1:] {
				walk(a, b)
			}
		case "quant":
			nb := map[string]bool{}
			for k := range b {
				nb[k] = true
			}
			for _, v := range n.Vars {
				nb[v.Name] = true
			}
			walk(n.Args[0], nb)
		case "old":
			ok = false
		default:
			for _, a := range n.Args {
				walk(a, b)
			}
		}
	}
	walk(rhs, bound)
	if !ok {
		return false, fname, ""
	}
	canon = rhs.String()
	var keys []string
	for k := range args {
		keys = append(keys, k)
	}
	sort.Slice(keys, func(i, j int) bool { return len(keys[i]) > len(keys[j]) })
	for _, k := range keys {
		canon = strings.ReplaceAll(canon, k, fmt.Sprintf("$%d", args[k]))
	}
	return true, fname, canon
}

// specMentions: does the expression call one of the named spec functions, directly or through
// the bodies of the pure functions it uses?
func (e *Engine) specMentions(x *SExpr, names map[string]bool, pkg string) bool {
	seen := map[string]bool{}
	var walk func(n *SExpr) bool
	walk = func(n *SExpr) bool {
		if n == nil {
			return false
		}
		if n.Kind == "call" {
			g := n.Args[0].String()
			if names[g] {
				return true
			}
			short := g
			if i := strings.LastIndex(g, "."); i >= 0 {
				short = g[i+1:]
			}
			if !seen[short] {
				seen[short] = true
				if pf, ok := e.cs.Pures[short]; ok && pf.Body != nil && walk(pf.Body) {
					return true
				}
			}
		}
		for _, a := range n.Args {
			if walk(a) {
				return true
			}
		}
		return false
	}
	return walk(x)
}

// ---------------------------------------------------------------------------
// Lexer

type tok struct {
	kind string // id, int, real, str, op, eof
	text string
	pos  int
}

func lexSpec(s string) ([]tok, error) {
	var toks []tok
	i := 0
	for i < len(s) {
		c := rune(s[i])
		switch {
		case c == ' ' || c == '\t' || c == '\n' || c == '\r':
			i++
		case unicode.IsLetter(c) || c == '_' || c == '$':
			j := i + 1
			for j < len(s) && (unicode.IsLetter(rune(s[j])) || unicode.IsDigit(rune(s[j])) || s[j] == '_' || s[j] == '$') {
				j++
			}
			toks = append(toks, tok{"id", s[i:j], i})
			i = j
		case unicode.IsDigit(c):
			j := i
			isReal := false
			for j < len(s) && (unicode.IsDigit(rune(s[j])) || s[j] == '.' || s[j] == 'e' || s[j] == '_') {
				if s[j] == '.' {
					// ".." or method? only digits follow
					if j+1 < len(s) && !unicode.IsDigit(rune(s[j+1])) {
						break
					}
					isReal = true
				}
				if s[j] == 'e' {
					isReal = true
					if j+1 < len(s) && (s[j+1] == '-' || s[j+1] == '+') {
						j++
					}
				}
				j++
			}
			k := "int"
			if isReal {
				k = "real"
			}
			toks = append(toks, tok{k, strings.ReplaceAll(s[i:j], "_", ""), i})
			i = j
		case c == '"':
			j := i + 1
			var b strings.Builder
			for j < len(s) && s[j] != '"' {
				if s[j] == '\\' && j+1 < len(s) {
					j++
					switch s[j] {
					case 'n':
						b.WriteByte('\n')
					case 't':
						b.WriteByte('\t')
					case '0':
						b.WriteByte(0)
					case 'x':
						if j+2 < len(s) {
							var v byte
							if _, err := fmt.Sscanf(s[j+1:j+3], "%02x", &v); err == nil {
								b.WriteByte(v)
								j += 2
								break
							}
						}
						b.WriteByte('x')
					default:
						b.WriteByte(s[j])
					}
				} else {
					b.WriteByte(s[j])
				}
				j++
			}
			if j >= len(s) {
				return nil, fmt.Errorf("unterminated string at %d", i)
			}
			toks = append(toks, tok{"str", b.String(), i})
			i = j + 1
		default:
			ops := []string{"<==>", "==>", "::", "&&", "||", "==", "!=", "<=", ">=", "+", "-", "*", "/", "%", "<", ">", "!", "(", ")", "[", "]", ".", ",", ":", "?", "&", "{", "}"}
			found := false
			for _, op := range ops {
				if strings.HasPrefix(s[i:], op) {
					toks = append(toks, tok{"op", op, i})
					i += len(op)
					found = true
					break
				}
			}
			if !found {
				return nil, fmt.Errorf("unexpected character %q at %d in %q", c, i, s)
			}
		}
	}
	toks = append(toks, tok{"eof", "", len(s)})
	return toks, nil
}

// ---------------------------------------------------------------------------
// Parser

type specParser struct {
	toks []tok
	p    int
	src  string
}

func ParseSpecExpr(s string) (e *SExpr, err error) {
	toks, err := lexSpec(s)
	if err != nil {
		return nil, err
	}
	p := &specParser{toks: toks, src: s}
	defer func() {
		if r := recover(); r != nil {
			if pe, ok := r.(parseErr); ok {
				err = fmt.Errorf("%s in %q", string(pe), s)
				return
			}
			panic(r)
		}
	}()
	e = p.expr()
	if p.peek().kind != "eof" {
		p.fail("unexpected %q", p.peek().text)
	}
	e.Src = s
	return e, nil
}

type parseErr string

func (p *specParser) fail(f string, a ...interface{}) {
	panic(parseErr(fmt.Sprintf(f, a...) + fmt.Sprintf(" at %d", p.peek().pos)))
}
func (p *specParser) peek() tok { return p.toks[p.p] }
func (p *specParser) next() tok { t := p.toks[p.p]; p.p++; return t }
func (p *specParser) isOp(s string) bool {
	t := p.peek()
	return t.kind == "op" && t.text == s
}
func (p *specParser) isID(s string) bool {
	t := p.peek()
	return t.kind == "id" && t.text == s
}
func (p *specParser) expect(s string) {
	if !p.isOp(s) {
		p.fail("expected %q, got %q", s, p.peek().text)
	}
	p.next()
}

func (p *specParser) expr() *SExpr {
	if p.isID("forall") || p.isID("exists") {
		q := p.next().text
		var vars []SVar
		for {
			var names []string
			names = append(names, p.ident())
			for p.isOp(",") {
				p.next()
				names = append(names, p.ident())
			}
			ty := p.typ()
			for _, n := range names {
				vars = append(vars, SVar{n, ty})
			}
			if p.isOp(",") {
				p.next()
				continue
			}
			break
		}
		p.expect("::")
		body := p.expr()
		return &SExpr{Kind: "quant", Op: q, Vars: vars, Args: []*SExpr{body}}
	}
	return p.implies()
}

func (p *specParser) ident() string {
	t := p.next()
	if t.kind != "id" {
		p.p--
		p.fail("expected identifier, got %q", t.text)
	}
	return t.text
}

func (p *specParser) typ() string {
	var b strings.Builder
	for {
		if p.isOp("*") {
			p.next()
			b.WriteString("*")
		} else if p.isOp("[") {
			p.next()
			p.expect("]")
			b.WriteString("[]")
		} else {
			break
		}
	}
	if p.isID("map") {
		p.next()
		p.expect("[")
		k := p.typ()
		p.expect("]")
		v := p.typ()
		return b.String() + "map[" + k + "]" + v
	}
	b.WriteString(p.ident())
	if p.isOp(".") {
		p.next()
		b.WriteString("." + p.ident())
	}
	return b.String()
}

func (p *specParser) implies() *SExpr {
	l := p.iff()
	if p.isOp("==>") {
		p.next()
		var r *SExpr
		if p.isID("forall") || p.isID("exists") {
			r = p.expr()
		} else {
			r = p.implies()
		}
		return &SExpr{Kind: "bin", Op: "==>", Args: []*SExpr{l, r}}
	}
	return l
}

func (p *specParser) iff() *SExpr {
	l := p.cond()
	for p.isOp("<==>") {
		p.next()
		r := p.cond()
		l = &SExpr{Kind: "bin", Op: "<==>", Args: []*SExpr{l, r}}
	}
	return l
}

func (p *specParser) cond() *SExpr {
	c := p.or()
	if p.isOp("?") {
		p.next()
		a := p.expr()
		p.expect(":")
		b := p.expr()
		return &SExpr{Kind: "cond", Args: []*SExpr{c, a, b}}
	}
	return c
}

func (p *specParser) or() *SExpr {
	l := p.and()
	for p.isOp("||") {
		p.next()
		r := p.and()
		l = &SExpr{Kind: "bin", Op: "||", Args: []*SExpr{l, r}}
	}
	return l
}

func (p *specParser) and() *SExpr {
	l := p.cmp()
	for p.isOp("&&") {
		p.next()
		var r *SExpr
		if p.isID("forall") || p.isID("exists") {
			r = p.expr()
		} else {
			r = p.cmp()
		}
		l = &SExpr{Kind: "bin", Op: "&&", Args: []*SExpr{l, r}}
	}
	return l
}

func (p *specParser) cmp() *SExpr {
	l := p.add()
	for {
		t := p.peek()
		if t.kind == "op" && (t.text == "==" || t.text == "!=" || t.text == "<" || t.text == "<=" || t.text == ">" || t.text == ">=") {
			p.next()
			r := p.add()
			l = &SExpr{Kind: "bin", Op: t.text, Args: []*SExpr{l, r}}
			continue
		}
		if t.kind == "id" && t.text == "in" {
			p.next()
			r := p.add()
			l = &SExpr{Kind: "bin", Op: "in", Args: []*SExpr{l, r}}
			continue
		}
		return l
	}
}

func (p *specParser) add() *SExpr {
	l := p.mul()
	for p.isOp("+") || p.isOp("-") {
		op := p.next().text
		r := p.mul()
		l = &SExpr{Kind: "bin", Op: op, Args: []*SExpr{l, r}}
	}
	return l
}

func (p *specParser) mul() *SExpr {
	l := p.unary()
	for p.isOp("*") || p.isOp("/") || p.isOp("%") {
		op := p.next().text
		r := p.unary()
		l = &SExpr{Kind: "bin", Op: op, Args: []*SExpr{l, r}}
	}
	return l
}

func (p *specParser) unary() *SExpr {
	if p.isOp("!") || p.isOp("-") || p.isOp("&") || p.isOp("*") {
		op := p.next().text
		a := p.unary()
		return &SExpr{Kind: "un", Op: op, Args: []*SExpr{a}}
	}
	return p.postfix()
}

func (p *specParser) postfix() *SExpr {
	e := p.primary()
	for {
		switch {
		case p.isOp("."):
			p.next()
			e = &SExpr{Kind: "field", Name: p.ident(), Args: []*SExpr{e}}
		case p.isOp("["):
			p.next()
			var lo, hi *SExpr
			if p.isOp(":") {
				p.next()
				if !p.isOp("]") {
					hi = p.expr()
				}
				p.expect("]")
				e = &SExpr{Kind: "slice", Args: []*SExpr{e, nil, hi}}
				continue
			}
			lo = p.expr()
			if p.isOp(":") {
				p.next()
				if !p.isOp("]") {
					hi = p.expr()
				}
				p.expect("]")
				e = &SExpr{Kind: "slice", Args: []*SExpr{e, lo, hi}}
				continue
			}
			p.expect("]")
			e = &SExpr{Kind: "index", Args: []*SExpr{e, lo}}
		case p.isOp("("):
			p.next()
			args := []*SExpr{e}
			for !p.isOp(")") {
				args = append(args, p.expr())
				if p.isOp(",") {
					p.next()
				} else {
					break
				}
			}
			p.expect(")")
			if e.Kind == "ident" && e.Name == "old" && len(args) == 2 {
				e = &SExpr{Kind: "old", Args: []*SExpr{args[1]}}
			} else {
				e = &SExpr{Kind: "call", Args: args}
			}
		default:
			return e
		}
	}
}

func (p *specParser) primary() *SExpr {
	t := p.next()
	switch t.kind {
	case "id":
		return &SExpr{Kind: "ident", Name: t.text}
	case "int":
		return &SExpr{Kind: "int", Name: t.text}
	case "real":
		return &SExpr{Kind: "real", Name: t.text}
	case "str":
		return &SExpr{Kind: "str", Name: t.text}
	case "op":
		if t.text == "(" {
			e := p.expr()
			p.expect(")")
			return e
		}
		if t.text == "[" && p.isOp("]") {
			// a slice type used as an argument of istype / astype
			p.next()
			return &SExpr{Kind: "ident", Name: "[]" + p.typ()}
		}
	}
	p.p--
	p.fail("unexpected %q", t.text)
	return nil
}

// ---------------------------------------------------------------------------
// Contract files

type Clause struct {
	Kind    string // requires, ensures, invariant, decreases, assert
	Name    string
	Expr    *SExpr
	Text    string
	Line    int
	File    string
	Trusted bool // assumed at call sites, not checked against the body (reported as an assumption)
	Private bool // "proves": checked against the body like an ensures clause, but not handed to callers (keeps two-variable facts nobody needs out of their contexts)
}

type LoopContract struct {
	Ordinal    int
	Invariants []*Clause
	Decreases  *Clause
	Modifies   []string
}

type FuncContract struct {
	Key      string // e.g. "(*SearchHistory).AddEntry" or "NewSearchHistory" or "ValidateQuery$1"
	Pkg      string // package path the contract belongs to
	Requires []*Clause
	Ensures  []*Clause
	Loops    map[int]*LoopContract
	Modifies []string // heap names / "nothing"; nil = unspecified
	HasMod   bool
	Assumed  bool // assume-contract (external / trusted)
	Pure     bool // result is a function of the arguments (and heaps read); callers get a UF
	Opts     map[string]string
	Defines  []*Clause // unit-local definitional axioms for declared-only spec functions
	Hints    []*Hint   // intermediate assertions (cuts) placed before calls: proved, then assumed
	File     string
	Line     int
	Reads    []string
	IsAlso   bool
}

// Hint: "hint[name] <callee> <expr>" — before every call of <callee> in the body the expression
// (over the locals) is an obligation, and is assumed afterwards. A cut for the solver, not an
// assumption: nothing is taken on trust.
type Hint struct {
	Callee string
	C      *Clause
}

type GuardDecl struct {
	Type     string
	Mutex    string
	Fields   map[string]bool
	Contents map[string]bool // fields whose map contents (not the field itself) are guarded
	AddOnly  map[string]bool // guarded-contents fields whose maps only ever gain entries (no entry replaced or removed)
	Pkg      string
}

type PureFunc struct {
	Name   string
	Params []SVar
	Ret    string
	Body   *SExpr // nil => uninterpreted
	Pkg    string
	Opaque bool // encoded as a function of its arguments and the heaps it reads, with a definitional axiom (not expanded in place)
}

type Lemma struct {
	Name  string
	Expr  *SExpr
	Text  string
	Axiom bool // assumed, not proved
	Local bool // assumed only in units whose own contract mentions a declared-only spec function of the axiom
	Pkg   string
	File  string
	Line  int
}

type GhostDecl struct {
	Name   string
	Params []SVar
	Ret    string
	Pkg    string
}

type ContractSet struct {
	Ghosts  map[string]*GhostDecl
	Guards  map[string]*GuardDecl // "pkgpath.Type" -> lock discipline
	Also    map[string]*FuncContract // second contracts ("also func")
	Funcs   map[string]*FuncContract // key: pkgpath + "::" + Key
	Pures   map[string]*PureFunc     // key: name (global namespace; pkg recorded)
	Lemmas  []*Lemma
	TypeInv map[string]*SExpr
	Assumes int
}

func NewContractSet() *ContractSet {
	return &ContractSet{Funcs: map[string]*FuncContract{}, Pures: map[string]*PureFunc{}, TypeInv: map[string]*SExpr{}, Ghosts: map[string]*GhostDecl{}, Guards: map[string]*GuardDecl{}, Also: map[string]*FuncContract{}}
}

// ParseContractText parses the //@ lines of one file.
func (cs *ContractSet) ParseContractText(pkgPath, file, text string) error {
	lines := strings.Split(text, "\n")
	var cur *FuncContract
	var curLoop *LoopContract
	var pending *Clause // for continuation lines
	for ln, raw := range lines {
		line := strings.TrimSpace(raw)
		if !strings.HasPrefix(line, "//@") {
			pending = nil
			continue
		}
		body := strings.TrimSpace(line[3:])
		if body == "" {
			continue
		}
		// strip trailing comment " // ..."
		if i := strings.Index(body, " // "); i >= 0 {
			body = strings.TrimSpace(body[:i])
		}
		word, rest := splitWord(body)
		mk := func(kind string) (*Clause, error) {
			name := ""
			w := word
			if i := strings.Index(w, "["); i >= 0 && strings.HasSuffix(w, "]") {
				name = w[i+1 : len(w)-1]
			}
			e, err := ParseSpecExpr(rest)
			if err != nil {
				return nil, fmt.Errorf("%s:%d: %v", file, ln+1, err)
			}
			return &Clause{Kind: kind, Name: name, Expr: e, Text: rest, Line: ln + 1, File: file}, nil
		}
		base := word
		if i := strings.Index(base, "["); i >= 0 {
			base = base[:i]
		}
		switch base {
		case "also":
			// "also func KEY": a second contract of the same function (its own requires / modifies /
			// ensures), verified as a unit of its own; used at call sites by callers in concurrent mode
			w2, r2 := splitWord(rest)
			if w2 != "func" {
				return fmt.Errorf("%s:%d: expected 'also func'", file, ln+1)
			}
			key := strings.TrimSpace(r2)
			pk := pkgPath
			if i := strings.Index(key, "::"); i >= 0 {
				pk = key[:i]
				key = key[i+2:]
			}
			cur = &FuncContract{Key: key, Pkg: pk, Loops: map[int]*LoopContract{}, Opts: map[string]string{}, File: file, Line: ln + 1, IsAlso: true}
			cs.Also[pk+"::"+key] = cur
			curLoop = nil
			pending = nil
		case "func", "assume":
			assumed := false
			if base == "assume" {
				w2, r2 := splitWord(rest)
				if w2 != "func" {
					return fmt.Errorf("%s:%d: expected 'assume func'", file, ln+1)
				}
				rest = r2
				assumed = true
				cs.Assumes++
			}
			key := strings.TrimSpace(rest)
			pk := pkgPath
			if i := strings.Index(key, "::"); i >= 0 {
				pk = key[:i]
				key = key[i+2:]
			}
			if prev, ok := cs.Funcs[pk+"::"+key]; ok && prev.Assumed == assumed {
				cur = prev // a contract may be written in several pieces
			} else {
				cur = &FuncContract{Key: key, Pkg: pk, Loops: map[int]*LoopContract{}, Assumed: assumed, Opts: map[string]string{}, File: file, Line: ln + 1}
				cs.Funcs[pk+"::"+key] = cur
			}
			curLoop = nil
			pending = nil
		case "requires", "ensures", "trusted-ensures", "proves":
			if cur == nil {
				return fmt.Errorf("%s:%d: clause outside func", file, ln+1)
			}
			kind := strings.TrimPrefix(base, "trusted-")
			if kind == "proves" {
				kind = "ensures"
			}
			c, err := mk(kind)
			if err != nil {
				return err
			}
			c.Private = base == "proves"
			if base == "trusted-ensures" {
				c.Trusted = true
				cs.Assumes++
			}
			if base == "requires" {
				cur.Requires = append(cur.Requires, c)
			} else {
				cur.Ensures = append(cur.Ensures, c)
			}
			pending = c
		case "hint":
			if cur == nil {
				return fmt.Errorf("%s:%d: hint outside func", file, ln+1)
			}
			callee, ex := splitWord(rest)
			e, err := ParseSpecExpr(ex)
			if err != nil {
				return fmt.Errorf("%s:%d: %v", file, ln+1, err)
			}
			hn := ""
			if i := strings.Index(word, "["); i >= 0 && strings.HasSuffix(word, "]") {
				hn = word[i+1 : len(word)-1]
			}
			cur.Hints = append(cur.Hints, &Hint{Callee: callee, C: &Clause{Kind: "hint", Name: hn, Expr: e, Text: ex, Line: ln + 1, File: file}})
		case "defines":
			if cur == nil {
				return fmt.Errorf("%s:%d: defines outside func", file, ln+1)
			}
			c, err := mk("defines")
			if err != nil {
				return err
			}
			cur.Defines = append(cur.Defines, c)
		case "loop":
			if cur == nil {
				return fmt.Errorf("%s:%d: loop outside func", file, ln+1)
			}
			var n int
			fmt.Sscanf(rest, "%d", &n)
			curLoop = &LoopContract{Ordinal: n}
			cur.Loops[n] = curLoop
		case "invariant":
			if curLoop == nil {
				return fmt.Errorf("%s:%d: invariant outside loop", file, ln+1)
			}
			c, err := mk("invariant")
			if err != nil {
				return err
			}
			curLoop.Invariants = append(curLoop.Invariants, c)
		case "decreases":
			if curLoop == nil {
				return fmt.Errorf("%s:%d: decreases outside loop", file, ln+1)
			}
			c, err := mk("decreases")
			if err != nil {
				return err
			}
			curLoop.Decreases = c
		case "modifies":
			if cur == nil {
				return fmt.Errorf("%s:%d: modifies outside func", file, ln+1)
			}
			items := splitList(rest)
			if curLoop != nil {
				curLoop.Modifies = append(curLoop.Modifies, items...)
			} else {
				cur.HasMod = true
				for _, it := range items {
					if it != "nothing" {
						cur.Modifies = append(cur.Modifies, it)
					}
				}
			}
		case "reads":
			if cur == nil {
				return fmt.Errorf("%s:%d: reads outside func", file, ln+1)
			}
			cur.Reads = append(cur.Reads, splitList(rest)...)
		case "pure":
			if rest == "" && cur != nil {
				cur.Pure = true
				continue
			}
			pf, err := parsePureDecl(rest)
			if err != nil {
				return fmt.Errorf("%s:%d: %v", file, ln+1, err)
			}
			pf.Pkg = pkgPath
			cs.Pures[pf.Name] = pf
			cur = nil
			curLoop = nil
		case "opaque":
			pf, err := parsePureDecl(rest)
			if err != nil {
				return fmt.Errorf("%s:%d: %v", file, ln+1, err)
			}
			if pf.Body == nil {
				return fmt.Errorf("%s:%d: opaque function needs a body", file, ln+1)
			}
			pf.Pkg = pkgPath
			pf.Opaque = true
			cs.Pures[pf.Name] = pf
			cur = nil
			curLoop = nil
		case "guarded-contents":
			// guarded-contents <Type> <mutex field> <field> ... : the listed fields hold maps that are
			// assigned by the constructor only; their CONTENTS are read / updated only under the mutex
			ws := strings.Fields(rest)
			if len(ws) < 3 {
				return fmt.Errorf("%s:%d: guarded-contents wants: Type mutex-field field...", file, ln+1)
			}
			g := cs.Guards[pkgPath+"."+ws[0]]
			if g == nil {
				g = &GuardDecl{Type: ws[0], Mutex: ws[1], Fields: map[string]bool{}, Pkg: pkgPath}
				cs.Guards[pkgPath+"."+ws[0]] = g
			}
			if g.Contents == nil {
				g.Contents = map[string]bool{}
			}
			for _, f := range ws[2:] {
				g.Contents[f] = true
			}
			cur = nil
			curLoop = nil
		case "add-only":
			// add-only <Type> <field> ... : the maps held by these guarded-contents fields only ever
			// gain entries. Guarantee: every update of such a map is an obligation (the key is absent
			// or already maps to the value stored; no delete). Rely (units with `opt interference
			// yes`): acquiring the mutex replaces the map contents by an arbitrary extension.
			ws := strings.Fields(rest)
			if len(ws) < 2 {
				return fmt.Errorf("%s:%d: add-only wants: Type field...", file, ln+1)
			}
			g := cs.Guards[pkgPath+"."+ws[0]]
			if g == nil || g.Contents == nil {
				return fmt.Errorf("%s:%d: add-only: %s has no guarded-contents declaration before this line", file, ln+1, ws[0])
			}
			if g.AddOnly == nil {
				g.AddOnly = map[string]bool{}
			}
			for _, f := range ws[1:] {
				if !g.Contents[f] {
					return fmt.Errorf("%s:%d: add-only: %s.%s is not a guarded-contents field", file, ln+1, ws[0], f)
				}
				g.AddOnly[f] = true
			}
			cur = nil
			curLoop = nil
		case "guarded":
			// guarded <Type> <mutex field> <field> ... : the listed fields of the type are accessed
			// only while the object's mutex is held (exclusively for writes)
			ws := strings.Fields(rest)
			if len(ws) < 3 {
				return fmt.Errorf("%s:%d: guarded wants: Type mutex-field field...", file, ln+1)
			}
			g := &GuardDecl{Type: ws[0], Mutex: ws[1], Fields: map[string]bool{}, Pkg: pkgPath}
			for _, f := range ws[2:] {
				g.Fields[f] = true
			}
			cs.Guards[pkgPath+"."+ws[0]] = g
			cur = nil
			curLoop = nil
		case "ghost":
			pf, err := parsePureDecl("func " + rest)
			if err != nil {
				return fmt.Errorf("%s:%d: %v", file, ln+1, err)
			}
			if len(pf.Params) == 0 || pf.Body != nil {
				return fmt.Errorf("%s:%d: ghost declaration needs parameters and no body", file, ln+1)
			}
			cs.Ghosts[pf.Name] = &GhostDecl{Name: pf.Name, Params: pf.Params, Ret: pf.Ret, Pkg: pkgPath}
			cur = nil
			curLoop = nil
		case "lemma", "axiom", "local-axiom":
			name, r2 := splitWord(rest)
			e, err := ParseSpecExpr(r2)
			if err != nil {
				return fmt.Errorf("%s:%d: %v", file, ln+1, err)
			}
			cs.Lemmas = append(cs.Lemmas, &Lemma{Name: name, Expr: e, Text: r2, Axiom: base == "axiom" || base == "local-axiom", Local: base == "local-axiom", Pkg: pkgPath, File: file, Line: ln + 1})
			if base == "axiom" || base == "local-axiom" {
				cs.Assumes++
			}
		case "opt":
			if cur == nil {
				return fmt.Errorf("%s:%d: opt outside func", file, ln+1)
			}
			k, v := splitWord(rest)
			cur.Opts[k] = v
		default:
			return fmt.Errorf("%s:%d: unknown contract keyword %q", file, ln+1, word)
		}
		_ = pending
	}
	return nil
}

func splitWord(s string) (string, string) {
	s = strings.TrimSpace(s)
	// word may contain [name]
	i := 0
	depth := 0
	for i < len(s) {
		c := s[i]
		if c == '[' {
			depth++
		}
		if c == ']' {
			depth--
		}
		if (c == ' ' || c == '\t') && depth == 0 {
			break
		}
		i++
	}
	return s[:i], strings.TrimSpace(s[i:])
}

func splitList(s string) []string {
	var out []string
	for _, p := range strings.Split(s, ",") {
		p = strings.TrimSpace(p)
		if p != "" {
			out = append(out, p)
		}
	}
	return out
}

// pure func name(a T, b U) R = expr      (or without "= expr": uninterpreted)
func parsePureDecl(s string) (*PureFunc, error) {
	w, rest := splitWord(s)
	if w != "func" {
		return nil, fmt.Errorf("expected 'pure func'")
	}
	i := strings.Index(rest, "(")
	if i < 0 {
		return nil, fmt.Errorf("bad pure func decl")
	}
	name := strings.TrimSpace(rest[:i])
	// find matching paren
	depth := 0
	j := i
	for ; j < len(rest); j++ {
		if rest[j] == '(' {
			depth++
		}
		if rest[j] == ')' {
			depth--
			if depth == 0 {
				break
			}
		}
	}
	params := rest[i+1 : j]
	after := strings.TrimSpace(rest[j+1:])
	pf := &PureFunc{Name: name}
	// params: "a, b T, c U"
	var pendingNames []string
	for _, part := range splitList(params) {
		fs := strings.Fields(part)
		if len(fs) == 1 {
			pendingNames = append(pendingNames, fs[0])
			continue
		}
		ty := strings.Join(fs[1:], "")
		pendingNames = append(pendingNames, fs[0])
		for _, n := range pendingNames {
			pf.Params = append(pf.Params, SVar{n, ty})
		}
		pendingNames = nil
	}
	if len(pendingNames) > 0 {
		return nil, fmt.Errorf("parameter without type in pure func %s", name)
	}
	ret := after
	body := ""
	if k := strings.Index(after, "="); k >= 0 {
		ret = strings.TrimSpace(after[:k])
		body = strings.TrimSpace(after[k+1:])
	}
	pf.Ret = ret
	if body != "" {
		e, err := ParseSpecExpr(body)
		if err != nil {
			return nil, err
		}
		pf.Body = e
	}
	return pf, nil
}
