package main

import (
	"fmt"
	"go/constant"
	"go/token"
	"go/types"
	"math"
	"sort"
	"strings"

	"golang.org/x/tools/go/ssa"
	"golang.org/x/tools/go/ssa/ssautil"
)

// StaticResult is the verdict of a dataflow / frame obligation decided on the SSA
// without a solver.
type StaticResult struct {
	Name   string
	Kind   string
	Text   string
	OK     bool
	Detail string
}

func runStatics(eng *Engine, id string, specs []StaticSpec) ([]*StaticResult, []string) {
	var out []*StaticResult
	var errs []string
	for _, s := range specs {
		h, ok := staticKinds[s.Kind]
		if !ok {
			errs = append(errs, "unknown static obligation kind "+s.Kind)
			continue
		}
		rs, es := h(eng, id, s)
		out = append(out, rs...)
		errs = append(errs, es...)
	}
	return out, errs
}

type staticHandler func(eng *Engine, id string, s StaticSpec) ([]*StaticResult, []string)

var staticKinds = map[string]staticHandler{}

// ---------------------------------------------------------------------------
// static kind "function-of-inputs": the call trees of args.roots consult nothing but their
// arguments and state that is never written after package initialisation: no clock, no random
// source, no environment / file system / process state, no goroutines or channel operations, and
// every package-level variable read is assigned only by initialisers. Together with the
// "maprange" obligations (iteration order does not matter) this makes the result a function of
// the arguments. One obligation per function of the call tree.

var nondetPkgs = map[string]string{
	"time": "the clock", "math/rand": "a random source", "math/rand/v2": "a random source", "crypto/rand": "a random source",
	"os": "process / file-system state", "os/exec": "another process", "runtime": "the scheduler", "net": "the network", "io/ioutil": "the file system",
	"os/user": "the user database", "syscall": "the operating system",
}

func init() {
	staticKinds["function-of-inputs"] = func(eng *Engine, id string, s StaticSpec) ([]*StaticResult, []string) {
		var errs []string
		fns := map[*ssa.Function]bool{}
		for _, root := range splitList(s.Args["roots"]) {
			fn, _, err := eng.LookupFunc(root)
			if err != nil {
				errs = append(errs, err.Error())
				continue
			}
			eng.callTree(fn, fns)
		}
		allow := map[string]bool{}
		for _, a := range splitList(s.Args["allow"]) {
			allow[a] = true
		}
		written := runtimeWrittenGlobals(eng)
		var list []*ssa.Function
		for fn := range fns {
			list = append(list, fn)
		}
		sort.Slice(list, func(i, j int) bool { return list[i].String() < list[j].String() })
		var out []*StaticResult
		for _, fn := range list {
			var bad []string
			for _, b := range fn.Blocks {
				for _, in := range b.Instrs {
					switch v := in.(type) {
					case *ssa.Go:
						bad = append(bad, "starts a goroutine")
					case *ssa.Select, *ssa.Send:
						bad = append(bad, "channel operation")
					case *ssa.UnOp:
						if v.Op == token.ARROW {
							bad = append(bad, "channel receive")
						}
						if v.Op == token.MUL {
							if g, ok := rootGlobal(v.X); ok {
								if w, isW := written[g]; isW && !allow[g.Name()] {
									bad = append(bad, fmt.Sprintf("reads package variable %s, which %s assigns", g.Name(), w))
								}
							}
						}
					case ssa.CallInstruction:
						if callee := v.Common().StaticCallee(); callee != nil && callee.Pkg != nil && !eng.inRepo(callee) {
							if what, ok := nondetPkgs[callee.Pkg.Pkg.Path()]; ok && !allow[callee.Pkg.Pkg.Path()+"."+callee.Name()] {
								if callee.Pkg.Pkg.Path() == "time" && callee.Name() != "Now" && callee.Name() != "Since" && callee.Name() != "Until" && callee.Name() != "After" && callee.Name() != "Sleep" && callee.Name() != "Tick" && callee.Name() != "NewTimer" && callee.Name() != "NewTicker" {
									continue // pure functions of package time (Duration arithmetic, formatting)
								}
								bad = append(bad, fmt.Sprintf("calls %s.%s (%s)", callee.Pkg.Pkg.Path(), callee.Name(), what))
							}
						}
					}
				}
			}
			r := &StaticResult{Name: fmt.Sprintf("function-of-inputs %s", fnDisplayName(fn)), Kind: "function-of-inputs",
				Text: "consults only its arguments and state fixed at package initialisation (no clock, random source, environment, goroutine, channel, or package variable assigned at run time)", OK: len(bad) == 0}
			if len(bad) > 0 {
				sort.Strings(bad)
				r.Detail = strings.Join(bad, "; ")
			}
			out = append(out, r)
		}
		if len(out) == 0 {
			errs = append(errs, "function-of-inputs: no function selected")
		}
		return out, errs
	}
}

// resolveNaive looks through the load-of-a-once-stored-temporary pattern of unlifted SSA.
func resolveNaive(v ssa.Value) ssa.Value {
	for i := 0; i < 8; i++ {
		u, ok := v.(*ssa.UnOp)
		if !ok || u.Op != token.MUL {
			return v
		}
		al, ok := u.X.(*ssa.Alloc)
		if !ok || al.Referrers() == nil {
			return v
		}
		var stored ssa.Value
		n := 0
		for _, r := range *al.Referrers() {
			if st, ok := r.(*ssa.Store); ok && st.Addr == ssa.Value(al) {
				stored = st.Val
				n++
			}
		}
		if n != 1 {
			return v
		}
		v = stored
	}
	return v
}

func rootGlobal(v ssa.Value) (*ssa.Global, bool) {
	for i := 0; i < 8; i++ {
		switch x := v.(type) {
		case *ssa.Global:
			return x, true
		case *ssa.FieldAddr:
			v = x.X
		case *ssa.IndexAddr:
			v = x.X
		case *ssa.UnOp:
			if x.Op != token.MUL {
				return nil, false
			}
			v = x.X
		case *ssa.Lookup:
			v = x.X
		case *ssa.Extract:
			v = x.Tuple
		default:
			return nil, false
		}
	}
	return nil, false
}

// runtimeWrittenGlobals: package-level variables assigned (directly, through a field / element
// address, or by a map update reached through lookups) outside package initialisers.
func runtimeWrittenGlobals(eng *Engine) map[*ssa.Global]string {
	written := map[*ssa.Global]string{}
	for fn := range ssautil.AllFunctions(eng.prog) {
		if !eng.inRepo(fn) || fn.Blocks == nil || fn.Name() == "init" || strings.HasPrefix(fn.Name(), "init#") {
			continue
		}
		if fn.Synthetic != "" && strings.Contains(fn.Synthetic, "package initializer") {
			continue
		}
		for _, b := range fn.Blocks {
			for _, in := range b.Instrs {
				if st, ok := in.(*ssa.Store); ok {
					if g, ok := rootGlobal(st.Addr); ok {
						written[g] = fnDisplayName(fn)
					}
				}
				if mu, ok := in.(*ssa.MapUpdate); ok {
					if g, ok := rootGlobal(mu.Map); ok {
						written[g] = fnDisplayName(fn)
					}
				}
				if c, ok := in.(ssa.CallInstruction); ok {
					if bi, ok := c.Common().Value.(*ssa.Builtin); ok && (bi.Name() == "delete" || bi.Name() == "clear") && len(c.Common().Args) > 0 {
						if g, ok := rootGlobal(c.Common().Args[0]); ok {
							written[g] = fnDisplayName(fn)
						}
					}
				}
			}
		}
	}
	return written
}

// static kind "init-table": args.global = pkg::name of a package-level map (possibly of maps)
// of float values built by a composite literal; args.min = lower bound. Obligations: (1) every
// value the package initialiser stores into the table (at any nesting depth) is a constant
// >= min, and the initialiser stores nothing else into it; (2) nothing assigns the table or
// its entries after initialisation. Justifies the axiom that states the bound at function entry.
func init() {
	staticKinds["init-table"] = func(eng *Engine, id string, s StaticSpec) ([]*StaticResult, []string) {
		name := s.Args["global"]
		i := strings.Index(name, "::")
		if i < 0 {
			return nil, []string{"init-table: global must be pkg::name"}
		}
		var min float64
		fmt.Sscanf(s.Args["min"], "%g", &min)
		var pkg *ssa.Package
		for _, p := range eng.prog.AllPackages() {
			if p.Pkg.Path() == modulePath+"/internal/"+name[:i] || (pkg == nil && p.Pkg.Path() == name[:i]) {
				pkg = p
			}
		}
		if pkg == nil {
			return nil, []string{"init-table: package not found: " + name[:i]}
		}
		g, ok := pkg.Members[name[i+2:]].(*ssa.Global)
		if !ok {
			return nil, []string{"init-table: no package variable " + name}
		}
		initFn := pkg.Func("init")
		// maps that belong to the table: the map stored into the global, and maps stored as values into those
		table := map[ssa.Value]bool{}
		var bad []string
		n := 0
		changed := true
		for changed {
			changed = false
			for _, b := range initFn.Blocks {
				for _, in := range b.Instrs {
					switch v := in.(type) {
					case *ssa.Store:
						if val := resolveNaive(v.Val); v.Addr == ssa.Value(g) && !table[val] {
							table[val] = true
							changed = true
						}
					case *ssa.MapUpdate:
						if table[resolveNaive(v.Map)] {
							if val := resolveNaive(v.Value); !table[val] {
								if _, isMap := val.Type().Underlying().(*types.Map); isMap {
									table[val] = true
									changed = true
								}
							}
						}
					}
				}
			}
		}
		for _, b := range initFn.Blocks {
			for _, in := range b.Instrs {
				mu, ok := in.(*ssa.MapUpdate)
				if !ok || !table[resolveNaive(mu.Map)] {
					continue
				}
				muValue := resolveNaive(mu.Value)
				if _, isMap := muValue.Type().Underlying().(*types.Map); isMap {
					if _, isMake := muValue.(*ssa.MakeMap); !isMake {
						bad = append(bad, fmt.Sprintf("entry at %s is not a map literal", shortPos(eng.fset.Position(mu.Pos()).String())))
					}
					continue
				}
				c, isConst := muValue.(*ssa.Const)
				if !isConst || c.Value == nil {
					bad = append(bad, fmt.Sprintf("value stored at %s is not a constant", shortPos(eng.fset.Position(mu.Pos()).String())))
					continue
				}
				f, _ := constant.Float64Val(constant.ToFloat(c.Value))
				n++
				if !(f >= min) || math.IsInf(f, 0) || math.IsNaN(f) {
					bad = append(bad, fmt.Sprintf("value %v stored at %s is below %v or not finite", f, shortPos(eng.fset.Position(mu.Pos()).String()), min))
				}
			}
		}
		for v := range table {
			if _, isMake := v.(*ssa.MakeMap); !isMake {
				bad = append(bad, "the table is not built from map literals")
			}
		}
		if n == 0 {
			bad = append(bad, "no table entries found in the package initialiser")
		}
		sort.Strings(bad)
		r1 := &StaticResult{Name: fmt.Sprintf("init-table %s / values >= %v", name, min), Kind: "init-table",
			Text: fmt.Sprintf("every value the package initialiser stores into %s (%d entries) is a finite constant >= %v", name, n, min), OK: len(bad) == 0, Detail: strings.Join(bad, "; ")}
		w, isW := runtimeWrittenGlobals(eng)[g]
		r2 := &StaticResult{Name: fmt.Sprintf("init-table %s / never assigned after initialisation", name), Kind: "init-table",
			Text: "no function assigns the table, or an entry reached through it, after package initialisation", OK: !isW}
		if isW {
			r2.Detail = "assigned by " + w
		}
		return []*StaticResult{r1, r2}, nil
	}
}
