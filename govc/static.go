package main

import (
	"fmt"
	"go/token"
	"sort"
	"strings"

	"golang.org/x/tools/go/ssa"
	"golang.org/x/tools/go/ssa/ssautil"
)

// StaticResult is the verdict of a dataflow / frame obligation decided on the SSA
// without a solver.
type StaticResult struct {
	Name   string
	Kind   string
	Text   string
	OK     bool
	Detail string
}

func runStatics(eng *Engine, id string, specs []StaticSpec) ([]*StaticResult, []string) {
	var out []*StaticResult
	var errs []string
	for _, s := range specs {
		h, ok := staticKinds[s.Kind]
		if !ok {
			errs = append(errs, "unknown static obligation kind "+s.Kind)
			continue
		}
		rs, es := h(eng, id, s)
		out = append(out, rs...)
		errs = append(errs, es...)
	}
	return out, errs
}

type staticHandler func(eng *Engine, id string, s StaticSpec) ([]*StaticResult, []string)

var staticKinds = map[string]staticHandler{}

// ---------------------------------------------------------------------------
// static kind "function-of-inputs": the call trees of args.roots consult nothing but their
// arguments and state that is never written after package initialisation: no clock, no random
// source, no environment / file system / process state, no goroutines or channel operations, and
// every package-level variable read is assigned only by initialisers. Together with the
// "maprange" obligations (iteration order does not matter) this makes the result a function of
// the arguments. One obligation per function of the call tree.

var nondetPkgs = map[string]string{
	"time": "the clock", "math/rand": "a random source", "math/rand/v2": "a random source", "crypto/rand": "a random source",
	"os": "process / file-system state", "os/exec": "another process", "runtime": "the scheduler", "net": "the network", "io/ioutil": "the file system",
	"os/user": "the user database", "syscall": "the operating system",
}

func init() {
	staticKinds["function-of-inputs"] = func(eng *Engine, id string, s StaticSpec) ([]*StaticResult, []string) {
		var errs []string
		fns := map[*ssa.Function]bool{}
		for _, root := range splitList(s.Args["roots"]) {
			fn, _, err := eng.LookupFunc(root)
			if err != nil {
				errs = append(errs, err.Error())
				continue
			}
			eng.callTree(fn, fns)
		}
		allow := map[string]bool{}
		for _, a := range splitList(s.Args["allow"]) {
			allow[a] = true
		}
		// package-level variables written outside initialisers (anywhere in the repository)
		written := map[*ssa.Global]string{}
		for fn := range ssautil.AllFunctions(eng.prog) {
			if !eng.inRepo(fn) || fn.Blocks == nil || fn.Name() == "init" || strings.HasPrefix(fn.Name(), "init#") {
				continue
			}
			if fn.Synthetic != "" && strings.Contains(fn.Synthetic, "package initializer") {
				continue
			}
			for _, b := range fn.Blocks {
				for _, in := range b.Instrs {
					if st, ok := in.(*ssa.Store); ok {
						if g, ok := rootGlobal(st.Addr); ok {
							written[g] = fnDisplayName(fn)
						}
					}
					if mu, ok := in.(*ssa.MapUpdate); ok {
						if g, ok := rootGlobal(mu.Map); ok {
							written[g] = fnDisplayName(fn)
						}
					}
				}
			}
		}
		var list []*ssa.Function
		for fn := range fns {
			list = append(list, fn)
		}
		sort.Slice(list, func(i, j int) bool { return list[i].String() < list[j].String() })
		var out []*StaticResult
		for _, fn := range list {
			var bad []string
			for _, b := range fn.Blocks {
				for _, in := range b.Instrs {
					switch v := in.(type) {
					case *ssa.Go:
						bad = append(bad, "starts a goroutine")
					case *ssa.Select, *ssa.Send:
						bad = append(bad, "channel operation")
					case *ssa.UnOp:
						if v.Op == token.ARROW {
							bad = append(bad, "channel receive")
						}
						if v.Op == token.MUL {
							if g, ok := rootGlobal(v.X); ok {
								if w, isW := written[g]; isW && !allow[g.Name()] {
									bad = append(bad, fmt.Sprintf("reads package variable %s, which %s assigns", g.Name(), w))
								}
							}
						}
					case ssa.CallInstruction:
						if callee := v.Common().StaticCallee(); callee != nil && callee.Pkg != nil && !eng.inRepo(callee) {
							if what, ok := nondetPkgs[callee.Pkg.Pkg.Path()]; ok && !allow[callee.Pkg.Pkg.Path()+"."+callee.Name()] {
								if callee.Pkg.Pkg.Path() == "time" && callee.Name() != "Now" && callee.Name() != "Since" && callee.Name() != "Until" && callee.Name() != "After" && callee.Name() != "Sleep" && callee.Name() != "Tick" && callee.Name() != "NewTimer" && callee.Name() != "NewTicker" {
									continue // pure functions of package time (Duration arithmetic, formatting)
								}
								bad = append(bad, fmt.Sprintf("calls %s.%s (%s)", callee.Pkg.Pkg.Path(), callee.Name(), what))
							}
						}
					}
				}
			}
			r := &StaticResult{Name: fmt.Sprintf("function-of-inputs %s", fnDisplayName(fn)), Kind: "function-of-inputs",
				Text: "consults only its arguments and state fixed at package initialisation (no clock, random source, environment, goroutine, channel, or package variable assigned at run time)", OK: len(bad) == 0}
			if len(bad) > 0 {
				sort.Strings(bad)
				r.Detail = strings.Join(bad, "; ")
			}
			out = append(out, r)
		}
		if len(out) == 0 {
			errs = append(errs, "function-of-inputs: no function selected")
		}
		return out, errs
	}
}

func rootGlobal(v ssa.Value) (*ssa.Global, bool) {
	for i := 0; i < 8; i++ {
		switch x := v.(type) {
		case *ssa.Global:
			return x, true
		case *ssa.FieldAddr:
			v = x.X
		case *ssa.IndexAddr:
			v = x.X
		case *ssa.UnOp:
			if x.Op != token.MUL {
				return nil, false
			}
			v = x.X
		default:
			return nil, false
		}
	}
	return nil, false
}
