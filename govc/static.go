package main

// StaticResult is the verdict of a dataflow / frame obligation decided on the SSA
// without a solver.
type StaticResult struct {
	Name   string
	Kind   string
	Text   string
	OK     bool
	Detail string
}

func runStatics(eng *Engine, id string, specs []StaticSpec) ([]*StaticResult, []string) {
	var out []*StaticResult
	var errs []string
	for _, s := range specs {
		h, ok := staticKinds[s.Kind]
		if !ok {
			errs = append(errs, "unknown static obligation kind "+s.Kind)
			continue
		}
		rs, es := h(eng, id, s)
		out = append(out, rs...)
		errs = append(errs, es...)
	}
	return out, errs
}

type staticHandler func(eng *Engine, id string, s StaticSpec) ([]*StaticResult, []string)

var staticKinds = map[string]staticHandler{}
