package main

import (
	"flag"
	"fmt"
	"go/token"
	"go/types"
	"os"
	"sort"
	"strings"

	"golang.org/x/tools/go/ssa"
	"golang.org/x/tools/go/ssa/ssautil"
)

// ---------------------------------------------------------------------------
// Order-independence of range-over-map loops (static obligation "maprange").
//
// Go randomises hash-map iteration order, so a loop over a map plays the role of a
// scheduler. A site is discharged when every effect of the loop body has one of the
// forms below, each of which makes the final state independent of the order in which the
// keys are visited (argument: adjacent iterations commute, and adjacent transpositions
// generate all orders):
//
//   local          writes to variables declared inside the body
//   per-key cell   m2[k] = f(k, v, m2[k], loop-invariant values)   (distinct keys, distinct cells)
//   int-accumulate x = x (+|*|&|"|") e   on integers/booleans, e independent of other accumulators
//   constant-store x = c  with c loop-invariant (every iteration stores the same value)
//   collect        x = append(x, e...)   and x is canonicalised by a sort before any other use
//                  (or the function is declared to return a bag)
//   delete-current delete(m, k) on the map being ranged
//   exists         return c / break with no accumulated state, c loop-invariant
//
// Everything else (floating-point accumulation, string concatenation, numbering by a counter,
// first-match returns, stores through pointers, calls with side effects) fails the obligation.

type mapRangeSite struct {
	Fn     *ssa.Function
	Range  *ssa.Range
	Next   *ssa.Next
	Header *ssa.BasicBlock
	Body   map[*ssa.BasicBlock]bool
	Ord    int
}

func findMapRangeSites(fn *ssa.Function) []*mapRangeSite {
	if fn.Blocks == nil {
		return nil
	}
	ci := analyzeCFG(fn)
	var sites []*mapRangeSite
	for _, b := range fn.Blocks {
		for _, in := range b.Instrs {
			nx, ok := in.(*ssa.Next)
			if !ok {
				continue
			}
			r, ok := nx.Iter.(*ssa.Range)
			if !ok {
				continue
			}
			if _, ok := r.X.Type().Underlying().(*types.Map); !ok {
				continue
			}
			if !ci.headers[b] {
				continue
			}
			sites = append(sites, &mapRangeSite{Fn: fn, Range: r, Next: nx, Header: b, Body: ci.loopBody[b]})
		}
	}
	sort.Slice(sites, func(i, j int) bool { return sites[i].Range.Pos() < sites[j].Range.Pos() })
	for i, s := range sites {
		s.Ord = i + 1
	}
	return sites
}

type mrAnalysis struct {
	eng      *Engine
	s        *mapRangeSite
	iterDep  map[ssa.Value]bool
	accDep   map[ssa.Value]bool
	accCells map[*ssa.Alloc]bool // outer cells stored in the body
	updMaps  []ssa.Value         // maps updated in the body
	bagOK    bool
}

func (a *mrAnalysis) inBody(in ssa.Instruction) bool { return a.s.Body[in.Block()] }

func (a *mrAnalysis) localAlloc(v ssa.Value) *ssa.Alloc {
	if al, ok := v.(*ssa.Alloc); ok && a.s.Body[al.Block()] {
		return al
	}
	return nil
}

// rootAlloc: the Alloc at the root of an address expression (through FieldAddr / IndexAddr on arrays).
func rootAlloc(v ssa.Value) *ssa.Alloc {
	for {
		switch x := v.(type) {
		case *ssa.Alloc:
			return x
		case *ssa.FieldAddr:
			v = x.X
		case *ssa.IndexAddr:
			if _, ok := x.X.Type().Underlying().(*types.Pointer); ok {
				v = x.X
			} else {
				return nil
			}
		default:
			return nil
		}
	}
}

func sameAddr(a, b ssa.Value) bool {
	if a == b {
		return true
	}
	switch x := a.(type) {
	case *ssa.FieldAddr:
		y, ok := b.(*ssa.FieldAddr)
		return ok && x.Field == y.Field && sameValue(x.X, y.X)
	case *ssa.IndexAddr:
		y, ok := b.(*ssa.IndexAddr)
		return ok && sameValue(x.X, y.X) && sameValue(x.Index, y.Index)
	}
	return false
}

// sameValue: syntactically the same value (same SSA value, or loads of the same address with
// no reasoning about intervening stores — used only for maps/pointers that the body does not reassign).
func sameValue(a, b ssa.Value) bool {
	if a == b {
		return true
	}
	ua, ok1 := a.(*ssa.UnOp)
	ub, ok2 := b.(*ssa.UnOp)
	if ok1 && ok2 && ua.Op == token.MUL && ub.Op == token.MUL {
		return sameAddr(ua.X, ub.X)
	}
	ca, ok1 := a.(*ssa.Const)
	cb, ok2 := b.(*ssa.Const)
	if ok1 && ok2 {
		return ca.Value == cb.Value || (ca.Value != nil && cb.Value != nil && ca.Value.ExactString() == cb.Value.ExactString())
	}
	return false
}

func (a *mrAnalysis) compute() {
	s := a.s
	a.iterDep = map[ssa.Value]bool{}
	a.accDep = map[ssa.Value]bool{}
	a.accCells = map[*ssa.Alloc]bool{}
	for b := range s.Body {
		for _, in := range b.Instrs {
			switch in := in.(type) {
			case *ssa.Store:
				if al := rootAlloc(in.Addr); al != nil && !s.Body[al.Block()] {
					a.accCells[al] = true
				}
			case *ssa.MapUpdate:
				a.updMaps = append(a.updMaps, in.Map)
			}
		}
	}
	// fixpoint over body instructions
	localIter := map[*ssa.Alloc]bool{}
	localAcc := map[*ssa.Alloc]bool{}
	for changed := true; changed; {
		changed = false
		set := func(m map[ssa.Value]bool, v ssa.Value) {
			if !m[v] {
				m[v] = true
				changed = true
			}
		}
		for b := range s.Body {
			for _, in := range b.Instrs {
				v, isVal := in.(ssa.Value)
				if st, ok := in.(*ssa.Store); ok {
					if al := rootAlloc(st.Addr); al != nil && s.Body[al.Block()] {
						if a.iterDep[st.Val] && !localIter[al] {
							localIter[al] = true
							changed = true
						}
						if a.accDep[st.Val] && !localAcc[al] {
							localAcc[al] = true
							changed = true
						}
					}
					continue
				}
				if !isVal {
					continue
				}
				if ex, ok := in.(*ssa.Extract); ok && ex.Tuple == ssa.Value(s.Next) {
					set(a.iterDep, v)
					continue
				}
				if u, ok := in.(*ssa.UnOp); ok && u.Op == token.MUL {
					if al := rootAlloc(u.X); al != nil {
						if s.Body[al.Block()] {
							if localIter[al] {
								set(a.iterDep, v)
							}
							if localAcc[al] {
								set(a.accDep, v)
							}
						} else if a.accCells[al] {
							set(a.accDep, v)
						}
						continue
					}
				}
				if lk, ok := in.(*ssa.Lookup); ok {
					for _, m := range a.updMaps {
						if sameValue(m, lk.X) {
							set(a.accDep, v)
						}
					}
				}
				var ops []*ssa.Value
				ops = in.Operands(ops)
				for _, op := range ops {
					if *op == nil {
						continue
					}
					if a.iterDep[*op] {
						set(a.iterDep, v)
					}
					if a.accDep[*op] {
						set(a.accDep, v)
					}
				}
			}
		}
	}
}

// isKey: is v the iteration key (directly or through the loop-local variable holding it)?
func (a *mrAnalysis) isKey(v ssa.Value) bool {
	if ex, ok := v.(*ssa.Extract); ok && ex.Tuple == ssa.Value(a.s.Next) && ex.Index == 1 {
		return true
	}
	if u, ok := v.(*ssa.UnOp); ok && u.Op == token.MUL {
		if al := a.localAlloc(u.X); al != nil {
			// every store into al stores the key
			n := 0
			for _, r := range *al.Referrers() {
				if st, ok := r.(*ssa.Store); ok && st.Addr == ssa.Value(al) {
					n++
					if !a.isKey(st.Val) {
						return false
					}
				}
			}
			return n > 0
		}
	}
	return false
}

// accOnlyVia: v depends on accumulated state only through the allowed value(s).
func (a *mrAnalysis) accOnlyVia(v ssa.Value, allowed func(ssa.Value) bool, depth int) bool {
	if !a.accDep[v] {
		return true
	}
	if allowed(v) {
		return true
	}
	if depth > 12 {
		return false
	}
	in, ok := v.(ssa.Instruction)
	if !ok {
		return false
	}
	if u, ok := v.(*ssa.UnOp); ok && u.Op == token.MUL {
		if al := a.localAlloc(rootAllocValue(u.X)); al != nil {
			// loop-local variable: all its stores must qualify
			for _, r := range *al.Referrers() {
				if st, ok := r.(*ssa.Store); ok && rootAlloc(st.Addr) == al {
					if !a.accOnlyVia(st.Val, allowed, depth+1) {
						return false
					}
				}
			}
			return true
		}
		return false
	}
	if _, ok := v.(*ssa.Lookup); ok {
		return false
	}
	var ops []*ssa.Value
	ops = in.Operands(ops)
	for _, op := range ops {
		if *op == nil {
			continue
		}
		if !a.accOnlyVia(*op, allowed, depth+1) {
			return false
		}
	}
	return true
}

func rootAllocValue(v ssa.Value) ssa.Value {
	if al := rootAlloc(v); al != nil {
		return al
	}
	return v
}

func isIntOrBool(t types.Type) bool {
	b, ok := t.Underlying().(*types.Basic)
	return ok && (b.Info()&types.IsInteger != 0 || b.Info()&types.IsBoolean != 0)
}

// classify returns ok, the list of idioms recognised, and the reason for failure.
func (a *mrAnalysis) classify() (bool, []string, string) {
	s := a.s
	a.compute()
	var idioms []string
	seen := map[string]bool{}
	add := func(x string) {
		if !seen[x] {
			seen[x] = true
			idioms = append(idioms, x)
		}
	}
	pos := func(in ssa.Instruction) string { return shortPos(a.eng.fset.Position(in.Pos()).String()) }
	hasAcc := len(a.accCells) > 0 || len(a.updMaps) > 0
	for b := range s.Body {
		for _, in := range b.Instrs {
			switch in := in.(type) {
			case *ssa.Store:
				al := rootAlloc(in.Addr)
				if al == nil {
					return false, idioms, fmt.Sprintf("store through a pointer inside the loop at %s", pos(in))
				}
				if s.Body[al.Block()] {
					add("local")
					continue
				}
				if ok, idiom, why := a.classifyAccStore(in, al); ok {
					add(idiom)
				} else {
					return false, idioms, fmt.Sprintf("%s at %s", why, pos(in))
				}
			case *ssa.MapUpdate:
				if !a.isKey(in.Key) {
					return false, idioms, fmt.Sprintf("map update with a key other than the iteration key at %s", pos(in))
				}
				m := in.Map
				ok := a.accOnlyVia(in.Value, func(v ssa.Value) bool {
					lk, isLk := v.(*ssa.Lookup)
					return isLk && sameValue(lk.X, m) && a.isKey(lk.Index)
				}, 0)
				if !ok {
					return false, idioms, fmt.Sprintf("value stored under the iteration key depends on other accumulated state at %s", pos(in))
				}
				add("per-key cell")
			case *ssa.Return:
				for _, r := range in.Results {
					if a.iterDep[r] || a.accDep[r] {
						return false, idioms, fmt.Sprintf("return inside the loop of a value that depends on the element visited at %s", pos(in))
					}
				}
				if hasAcc {
					return false, idioms, fmt.Sprintf("return inside a loop that also accumulates state at %s", pos(in))
				}
				add("exists")
			case ssa.CallInstruction:
				c := in.Common()
				if bi, ok := c.Value.(*ssa.Builtin); ok {
					switch bi.Name() {
					case "delete":
						if sameValue(c.Args[0], s.Range.X) && a.isKey(c.Args[1]) {
							add("delete-current")
							continue
						}
						return false, idioms, fmt.Sprintf("delete of another entry inside the loop at %s", pos(in))
					case "append", "len", "cap", "min", "max", "copy", "print", "println", "panic":
						if bi.Name() == "copy" {
							return false, idioms, fmt.Sprintf("copy inside the loop at %s", pos(in))
						}
						continue
					}
					continue
				}
				if c.IsInvoke() {
					if c.Method.Name() == "Error" || c.Method.Name() == "String" {
						continue
					}
					return false, idioms, fmt.Sprintf("interface method call %s inside the loop at %s", c.Method.Name(), pos(in))
				}
				callee := c.StaticCallee()
				if callee == nil {
					return false, idioms, fmt.Sprintf("call through a function value inside the loop at %s", pos(in))
				}
				if !a.eng.effectFree(callee, map[*ssa.Function]bool{}) {
					return false, idioms, fmt.Sprintf("call to %s, which may have side effects, at %s", callee, pos(in))
				}
			case *ssa.Go, *ssa.Defer, *ssa.Send:
				return false, idioms, fmt.Sprintf("go/defer/send inside the loop at %s", pos(in))
			}
		}
	}
	// breaks: an edge leaving the body from a block other than the header
	for b := range s.Body {
		if b == s.Header {
			continue
		}
		for _, succ := range b.Succs {
			if !s.Body[succ] {
				if _, isRet := b.Instrs[len(b.Instrs)-1].(*ssa.Return); isRet {
					continue
				}
				if hasAcc {
					return false, idioms, "break out of a loop that accumulates state (the state at the break depends on the order)"
				}
				add("exists")
			}
		}
	}
	// the blocks run on a break are not part of the loop body: anything they take from the body
	// (the element visited when the loop was left) depends on the iteration order
	for b := range s.Body {
		for _, in := range b.Instrs {
			v, ok := in.(ssa.Value)
			if !ok || v.Referrers() == nil {
				continue
			}
			for _, r := range *v.Referrers() {
				if r.Block() != nil && !s.Body[r.Block()] {
					if _, isPhi := r.(*ssa.Phi); isPhi && !a.iterDep[v] {
						continue
					}
					return false, idioms, fmt.Sprintf("a value computed inside the loop (for the element visited last) is used after leaving it at %s", pos(r))
				}
			}
		}
	}
	if len(idioms) == 0 {
		add("no effects")
	}
	return true, idioms, ""
}

func (a *mrAnalysis) classifyAccStore(st *ssa.Store, al *ssa.Alloc) (bool, string, string) {
	name := al.Comment
	if name == "" {
		name = al.Name()
	}
	val := st.Val
	if !a.iterDep[val] && !a.accDep[val] {
		return true, "constant-store", ""
	}
	isLoadOfSame := func(v ssa.Value) bool {
		u, ok := v.(*ssa.UnOp)
		return ok && u.Op == token.MUL && sameAddr(u.X, st.Addr)
	}
	switch v := val.(type) {
	case *ssa.BinOp:
		var other ssa.Value
		if isLoadOfSame(v.X) {
			other = v.Y
		} else if isLoadOfSame(v.Y) && (v.Op == token.ADD || v.Op == token.MUL || v.Op == token.AND || v.Op == token.OR) {
			other = v.X
		}
		if other != nil && !a.accDep[other] {
			switch v.Op {
			case token.ADD, token.MUL, token.AND, token.OR, token.XOR:
				if isIntOrBool(v.Type()) {
					return true, "int-accumulate", ""
				}
				if isFloat(v.Type()) {
					return false, "", fmt.Sprintf("floating-point accumulation into %s over map order (addition of doubles is not associative)", name)
				}
				if isString(v.Type()) {
					return false, "", fmt.Sprintf("string concatenation into %s over map order", name)
				}
			case token.SUB:
				if isIntOrBool(v.Type()) && isLoadOfSame(v.X) {
					return true, "int-accumulate", ""
				}
				if isFloat(v.Type()) {
					return false, "", fmt.Sprintf("floating-point accumulation into %s over map order", name)
				}
			}
		}
	case *ssa.Call:
		if bi, ok := v.Call.Value.(*ssa.Builtin); ok && bi.Name() == "append" && isLoadOfSame(v.Call.Args[0]) {
			for _, e := range v.Call.Args[1:] {
				if a.accDep[e] && !a.appendedElemsIndependent(e) {
					return false, "", fmt.Sprintf("element appended to %s depends on accumulated state", name)
				}
			}
			if a.bagOK {
				return true, "collect (declared bag)", ""
			}
			if sn := a.sortedAfter(al); sn != "" {
				return true, "collect-then-" + sn, ""
			}
			return false, "", fmt.Sprintf("%s collects the elements in map order and is not sorted before use", name)
		}
	}
	return false, "", fmt.Sprintf("order-dependent update of %s", name)
}

// appendedElemsIndependent: the varargs slice handed to append holds values independent of
// accumulated state (the slice itself is a fresh array, which the analysis sees as local stores).
func (a *mrAnalysis) appendedElemsIndependent(e ssa.Value) bool {
	sl, ok := e.(*ssa.Slice)
	if !ok {
		return false
	}
	al, ok := sl.X.(*ssa.Alloc)
	if !ok {
		return false
	}
	for _, r := range *al.Referrers() {
		if ia, ok := r.(*ssa.IndexAddr); ok {
			for _, r2 := range *ia.Referrers() {
				if st, ok := r2.(*ssa.Store); ok && a.accDep[st.Val] {
					return false
				}
			}
		}
	}
	return true
}

// sortedAfter: is the slice variable handed to a sort after the loop, in the same function?
func (a *mrAnalysis) sortedAfter(al *ssa.Alloc) string {
	for _, b := range a.s.Fn.Blocks {
		if a.s.Body[b] {
			continue
		}
		for _, in := range b.Instrs {
			c, ok := in.(*ssa.Call)
			if !ok {
				continue
			}
			callee := c.Call.StaticCallee()
			if callee == nil || callee.Pkg == nil || callee.Pkg.Pkg.Path() != "sort" || len(c.Call.Args) == 0 {
				continue
			}
			arg := c.Call.Args[0]
			if mi, ok := arg.(*ssa.MakeInterface); ok {
				arg = mi.X
			}
			if ct, ok := arg.(*ssa.ChangeType); ok {
				arg = ct.X
			}
			u, ok := arg.(*ssa.UnOp)
			if !ok || u.Op != token.MUL || rootAlloc(u.X) != al {
				continue
			}
			// the sort must come after the loop: its block is reachable from the loop exit
			switch callee.Name() {
			case "Strings", "Ints", "Float64s":
				return "sort." + callee.Name() + " (total order on the values)"
			case "Slice", "SliceStable", "Sort", "Stable":
				// canonical only if the comparator orders every two distinct elements: accepted when
				// the function's contract asks for that obligation (opt sort-total yes), which the
				// verifier then generates at the sort site
				if fc := a.eng.contractFor(a.s.Fn); fc != nil && fc.Opts["sort-total"] == "yes" {
					return "sort." + callee.Name() + " (comparator proved total on distinct elements: obligation sort[total-on-distinct])"
				}
			}
		}
	}
	return ""
}

// effectFree: the function (transitively) writes no memory that outlives the call.
func (e *Engine) effectFree(fn *ssa.Function, visiting map[*ssa.Function]bool) bool {
	if v, ok := e.effFree[fn]; ok {
		return v
	}
	if visiting[fn] {
		return true
	}
	visiting[fn] = true
	res := e.effectFree1(fn, visiting)
	e.effFree[fn] = res
	return res
}

func (e *Engine) effectFree1(fn *ssa.Function, visiting map[*ssa.Function]bool) bool {
	full := fn.String()
	if fn.Blocks == nil || !e.inRepo(fn) {
		if isPureExternal(fn) {
			return true
		}
		if fn.Pkg != nil {
			switch fn.Pkg.Pkg.Path() {
			case "strings", "unicode", "unicode/utf8", "math", "strconv", "path/filepath", "errors", "fmt", "regexp", "time", "math/bits", "bytes":
				if strings.HasPrefix(full, "fmt.Print") || strings.HasPrefix(full, "fmt.Fp") || strings.HasPrefix(full, "fmt.Scan") || strings.HasPrefix(full, "fmt.Fs") {
					return false
				}
				if fn.Signature.Recv() != nil {
					// methods of library types: readers only
					n := fn.Name()
					return !(strings.HasPrefix(n, "Write") || strings.HasPrefix(n, "Reset") || strings.HasPrefix(n, "Grow") || strings.HasPrefix(n, "Set") || strings.HasPrefix(n, "Read") || strings.HasPrefix(n, "Unread") || strings.HasPrefix(n, "Truncate"))
				}
				return true
			case "sync/atomic":
				return strings.HasPrefix(fn.Name(), "Load")
			}
		}
		if strings.HasPrefix(full, "(*sync.RWMutex).R") {
			return true
		}
		return false
	}
	for _, b := range fn.Blocks {
		for _, in := range b.Instrs {
			switch in := in.(type) {
			case *ssa.Store:
				al := rootAlloc(in.Addr)
				if al == nil {
					// store into fresh memory allocated here (slices made here) is still invisible;
					// we cannot tell in general: be conservative except for IndexAddr into a slice
					// produced by make/append in this function
					if ia, ok := in.Addr.(*ssa.IndexAddr); ok && localFreshSlice(ia.X) {
						continue
					}
					return false
				}
			case *ssa.MapUpdate:
				if !localFreshMap(in.Map) {
					return false
				}
			case *ssa.Go, *ssa.Send:
				return false
			case ssa.CallInstruction:
				c := in.Common()
				if bi, ok := c.Value.(*ssa.Builtin); ok {
					if bi.Name() == "delete" && !localFreshMap(c.Args[0]) {
						return false
					}
					if bi.Name() == "copy" {
						return false
					}
					continue
				}
				if c.IsInvoke() {
					if c.Method.Name() == "Error" || c.Method.Name() == "String" {
						continue
					}
					return false
				}
				callee := c.StaticCallee()
				if callee == nil {
					// closure defined here: its body is scanned as an anonymous function below
					if _, ok := c.Value.(*ssa.MakeClosure); ok {
						continue
					}
					if u, ok := c.Value.(*ssa.UnOp); ok && rootAlloc(u.X) != nil {
						continue
					}
					return false
				}
				if !e.effectFree(callee, visiting) {
					return false
				}
			}
		}
	}
	for _, anon := range fn.AnonFuncs {
		// closures may write captured locals (fine) but nothing else
		if !e.effectFree(anon, visiting) {
			return false
		}
	}
	return true
}

// localFreshSlice / localFreshMap: the value is (a load of) a local variable of this function
// that is only ever assigned make/append/composite results.
func localFreshSlice(v ssa.Value) bool {
	u, ok := v.(*ssa.UnOp)
	if !ok || u.Op != token.MUL {
		_, isMake := v.(*ssa.MakeSlice)
		return isMake
	}
	al := rootAlloc(u.X)
	if al == nil {
		return false
	}
	for _, r := range *al.Referrers() {
		if st, ok := r.(*ssa.Store); ok && st.Addr == ssa.Value(al) {
			switch sv := st.Val.(type) {
			case *ssa.MakeSlice:
			case *ssa.Call:
				if bi, ok := sv.Call.Value.(*ssa.Builtin); !ok || bi.Name() != "append" {
					return false
				}
			case *ssa.Const:
			default:
				return false
			}
		}
	}
	return true
}

func localFreshMap(v ssa.Value) bool {
	if _, ok := v.(*ssa.MakeMap); ok {
		return true
	}
	u, ok := v.(*ssa.UnOp)
	if !ok || u.Op != token.MUL {
		return false
	}
	al := rootAlloc(u.X)
	if al == nil || al != u.X {
		return false
	}
	n := 0
	for _, r := range *al.Referrers() {
		if st, ok := r.(*ssa.Store); ok && st.Addr == ssa.Value(al) {
			n++
			switch sv := st.Val.(type) {
			case *ssa.MakeMap:
			case *ssa.UnOp:
				// copy of another local holding a fresh map (complit pattern)
				if !localFreshMap(sv) {
					return false
				}
			default:
				return false
			}
		}
	}
	return n > 0
}

// ---------------------------------------------------------------------------
// static kind "maprange": args.roots = comma-separated functions whose call trees are scanned
// (or list = explicit functions); args.bag_ok = functions whose collected slice is declared a bag.

func init() {
	staticKinds["maprange"] = func(eng *Engine, id string, s StaticSpec) ([]*StaticResult, []string) {
		var errs []string
		fns := map[*ssa.Function]bool{}
		for _, name := range s.List {
			fn, _, err := eng.LookupFunc(name)
			if err != nil {
				errs = append(errs, err.Error())
				continue
			}
			fns[fn] = true
		}
		for _, root := range splitList(s.Args["roots"]) {
			fn, _, err := eng.LookupFunc(root)
			if err != nil {
				errs = append(errs, err.Error())
				continue
			}
			eng.callTree(fn, fns)
		}
		bag := map[string]string{}
		for _, b := range splitList(s.Args["bag_ok"]) {
			fn, _, err := eng.LookupFunc(b)
			if err != nil {
				errs = append(errs, err.Error())
				continue
			}
			bag[fn.String()] = b
		}
		var list []*ssa.Function
		for fn := range fns {
			list = append(list, fn)
		}
		sort.Slice(list, func(i, j int) bool { return list[i].String() < list[j].String() })
		var out []*StaticResult
		for _, fn := range list {
			for _, site := range findMapRangeSites(fn) {
				a := &mrAnalysis{eng: eng, s: site}
				_, a.bagOK = bag[fn.String()]
				ok, idioms, why := a.classify()
				r := &StaticResult{Name: fmt.Sprintf("maprange %s#%d / order-independent", fnDisplayName(fn), site.Ord), Kind: "maprange",
					Text: fmt.Sprintf("the loop over %s at %s leaves the same state for every iteration order", site.Range.X.Type(), shortPos(eng.fset.Position(site.Range.Pos()).String())), OK: ok}
				if ok {
					r.Detail = strings.Join(idioms, ", ")
					r.Text += " [" + r.Detail + "]"
				} else {
					r.Detail = why
				}
				out = append(out, r)
			}
		}
		// the iterator form of a map loop: maps.Keys / maps.Values / maps.All deliver the entries in
		// map order. Accepted only when the sequence goes straight into slices.Sorted (a total order
		// on a basic element type); anything else lets the iteration order escape.
		for _, fn := range list {
			n := 0
			for _, b := range fn.Blocks {
				for _, in := range b.Instrs {
					c, ok := in.(*ssa.Call)
					if !ok {
						continue
					}
					callee := c.Common().StaticCallee()
					if callee == nil {
						continue
					}
					o := callee
					if og := callee.Origin(); og != nil {
						o = og
					}
					if o.Pkg == nil || o.Pkg.Pkg.Path() != "maps" || (o.Name() != "Keys" && o.Name() != "Values" && o.Name() != "All") {
						continue
					}
					n++
					ok2 := c.Referrers() != nil && len(*c.Referrers()) > 0
					why := ""
					if ok2 {
						for _, r := range *c.Referrers() {
							if _, dbg := r.(*ssa.DebugRef); dbg {
								continue
							}
							rc, isCall := r.(*ssa.Call)
							good := false
							if isCall {
								if sc := rc.Common().StaticCallee(); sc != nil {
									so := sc
									if og := sc.Origin(); og != nil {
										so = og
									}
									if so.Pkg != nil && so.Pkg.Pkg.Path() == "slices" && so.Name() == "Sorted" {
										good = true
									}
								}
							}
							if !good {
								ok2 = false
								why = fmt.Sprintf("the sequence of maps.%s is consumed by %s, not by slices.Sorted: the map's iteration order escapes", o.Name(), r)
							}
						}
					}
					res := &StaticResult{Name: fmt.Sprintf("maprange %s maps.%s#%d / order-independent", fnDisplayName(fn), o.Name(), n), Kind: "maprange",
						Text: fmt.Sprintf("the map iterator at %s is sorted before use", shortPos(eng.fset.Position(c.Pos()).String())), OK: ok2, Detail: why}
					if ok2 {
						res.Detail = "maps." + o.Name() + " -> slices.Sorted"
					}
					out = append(out, res)
				}
			}
		}
		if len(out) == 0 && s.Args["allow_empty"] == "" {
			errs = append(errs, "maprange: no range-over-map site found in the selected functions")
		}
		return out, errs
	}
}

// callTree adds fn and every repository function statically reachable from it.
func (e *Engine) callTree(fn *ssa.Function, out map[*ssa.Function]bool) {
	if out[fn] || fn.Blocks == nil || !e.inRepo(fn) {
		return
	}
	out[fn] = true
	for _, b := range fn.Blocks {
		for _, in := range b.Instrs {
			if c, ok := in.(ssa.CallInstruction); ok {
				if callee := c.Common().StaticCallee(); callee != nil {
					e.callTree(callee, out)
				}
			}
			if mc, ok := in.(*ssa.MakeClosure); ok {
				e.callTree(mc.Fn.(*ssa.Function), out)
			}
		}
	}
	for _, anon := range fn.AnonFuncs {
		e.callTree(anon, out)
	}
}

func cmdMapRanges(args []string) {
	fs := flag.NewFlagSet("mapranges", flag.ExitOnError)
	repo := fs.String("repo", "/repo", "repository")
	fs.Parse(args)
	eng, err := LoadEngine(*repo)
	if err != nil {
		fmt.Println("ENGINE-ERROR:", err)
		os.Exit(2)
	}
	var lines []string
	for fn := range ssautil.AllFunctions(eng.prog) {
		if !eng.inRepo(fn) || fn.Blocks == nil {
			continue
		}
		pk, _ := fnKey(fn)
		if strings.Contains(pk, "testutil") {
			continue
		}
		for _, site := range findMapRangeSites(fn) {
			a := &mrAnalysis{eng: eng, s: site}
			ok, idioms, why := a.classify()
			v := "OK   " + strings.Join(idioms, ", ")
			if !ok {
				v = "FAIL " + why
			}
			lines = append(lines, fmt.Sprintf("%-40s %s#%d  %s", shortPos(eng.fset.Position(site.Range.Pos()).String()), fnDisplayName(fn), site.Ord, v))
		}
	}
	sort.Strings(lines)
	for _, l := range lines {
		fmt.Println(l)
	}
}
