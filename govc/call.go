package main

import (
	"os"
	"fmt"
	"go/token"
	"go/types"
	"strings"

	"golang.org/x/tools/go/ssa"
)

const maxInlineDepth = 6

func (x *Exec) call(site ssa.Instruction, c *ssa.CallCommon, st *State) Value {
	var args []Value
	for _, a := range c.Args {
		args = append(args, x.val(a))
	}
	fv := x.val(c.Value)
	x.hintsBefore(site, c, st)
	return x.callWith(site, c, fv, args, st)
}

// hintsBefore: the contract's intermediate assertions anchored at calls of the named callee.
func (x *Exec) hintsBefore(site ssa.Instruction, c *ssa.CallCommon, st *State) {
	if x.fc == nil || len(x.fc.Hints) == 0 || x.pure {
		return
	}
	callee := c.StaticCallee()
	if callee == nil {
		return
	}
	short := callee.Name()
	long := short
	if callee.Pkg != nil {
		long = callee.Pkg.Pkg.Name() + "." + short
	}
	x.hintsAt(short, long, site.Pos(), st)
}

// hintsAt: anchors are callee names ("before every call of f") or the word return ("before every
// return").
func (x *Exec) hintsAt(short, long string, pos token.Pos, st *State) {
	if x.fc == nil || x.pure {
		return
	}
	for i, h := range x.fc.Hints {
		if h.Callee != short && h.Callee != long {
			continue
		}
		env := x.specEnv(st, nil)
		g, err := env.EvalBool(h.C.Expr)
		if err != nil {
			if short == "return" && strings.Contains(err.Error(), "unknown identifier") {
				// a local not yet declared at this return: the cut does not apply here; one that
				// applies at no return at all is reported as drift when the function is done
				if x.hintSkipped == nil {
					x.hintSkipped = map[*Hint]error{}
				}
				x.hintSkipped[h] = err
				continue
			}
			x.invariantError(fmt.Sprintf("%s / hint[%s]", x.prefix, clauseName(h.C, i)), h.C, err)
			continue
		}
		if x.hintUsed == nil {
			x.hintUsed = map[*Hint]bool{}
		}
		x.hintUsed[h] = true
		x.u.AddObl(fmt.Sprintf("%s / hint[%s] before %s", x.prefix, clauseName(h.C, i), h.Callee), "hint", h.C.Text, x.curBlockReach, g, x.pos(pos), x.prefix)
		// the cut is visible only to obligations carrying the same property tag (the text before
		// the first '.' of the clause name): other obligations keep the context they were proved in
		// the group is the clause name up to its first '/', else up to its first '.'
		// (C03.s/scores-sound -> C03.s; C06.tokens-kept -> C06)
		tag := clauseName(h.C, i)
		if j := strings.Index(tag, "/"); j >= 0 {
			tag = tag[:j]
		} else if j := strings.Index(tag, "."); j >= 0 {
			tag = tag[:j]
		}
		flag := x.u.W.Const("hint.on."+tag, SBool)
		x.u.hintTags[tag] = flag.S
		aenv := x.specEnv(st, nil)
		aenv.noAlts = true
		if ga, err := aenv.EvalBool(h.C.Expr); err == nil {
			g = ga
		}
		x.assume(Implies(flag, g))
	}
}

func resultValue(vals []Value) Value {
	switch len(vals) {
	case 0:
		return nil
	case 1:
		return vals[0]
	}
	return Tuple(vals)
}

func (x *Exec) callWith(site ssa.Instruction, c *ssa.CallCommon, fv Value, args []Value, st *State) Value {
	x.curInstr = site
	if c.IsInvoke() {
		return x.invoke(site, c, fv, args, st)
	}
	switch f := fv.(type) {
	case *BuiltinRef:
		return x.builtin(f.B.Name(), c, args, st)
	case *FuncRef:
		return x.static(site, f.Fn, nil, args, st)
	case *Closure:
		return x.static(site, f.Fn, f.Bindings, args, st)
	case Term:
		return x.dispatchCall(site, c, f, args, st)
	case poison:
		x.fail("function value %s differs across paths", f.what)
	}
	x.fail("call of %T", fv)
	return nil
}

func (x *Exec) note(s string) {
	for _, n := range x.u.notes {
		if n == s {
			return
		}
	}
	x.u.notes = append(x.u.notes, s)
}

func (x *Exec) invoke(site ssa.Instruction, c *ssa.CallCommon, recv Value, args []Value, st *State) Value {
	w := x.u.W
	rt := x.term(recv)
	name := c.Method.Name()
	sig := c.Signature()
	// devirtualise: the receiver was boxed in this unit, so its dynamic type is known
	if bv, ok := x.u.boxed[rt.S]; ok {
		if sel := x.u.eng.prog.MethodSets.MethodSet(bv.T).Lookup(c.Method.Pkg(), name); sel != nil {
			if m := x.u.eng.prog.MethodValue(sel); m != nil {
				return x.static(site, m, nil, append([]Value{bv.V}, args...), st)
			}
		}
	}
	if name == "Error" && sig.Results().Len() == 1 && sig.Params().Len() == 0 {
		x.obl("safety[nil-deref]", "safety", "method call on nil interface", st, Not(Eq(rt, Term{"iface.nil", SIface})))
		return w.UF("error.Error", SStr, rt)
	}
	x.obl("safety[nil-deref]", "safety", "method call on nil interface", st, Not(Eq(rt, Term{"iface.nil", SIface})))
	if observerMethods[c.Method.FullName()] && sig.Results().Len() == 1 {
		// observers of standard-library interface values: a function of the receiver, no effects
		x.u.usedAssumed["observer method "+c.Method.FullName()+" of a library interface value has no side effects and is a function of its receiver"] = true
		ts := []Term{rt}
		for _, a := range args {
			ts = append(ts, x.term(a))
		}
		r := w.UF("obs."+sanitize(c.Method.FullName()), w.SortOf(sig.Results().At(0).Type()), ts...)
		x.assumeTypeInv(r, sig.Results().At(0).Type(), x.curBlockReach, st)
		return r
	}
	x.note("interface method call " + c.Method.FullName() + " havocs heaps reachable by type")
	return x.havocCall(site, sig, "invoke."+name, args, nil, st, true)
}

var observerMethods = map[string]bool{
	"(io/fs.DirEntry).Name": true, "(io/fs.DirEntry).IsDir": true, "(io/fs.FileInfo).Name": true, "(io/fs.FileInfo).Size": true,
	"(io/fs.FileInfo).IsDir": true, "(io/fs.FileInfo).Mode": true,
}

// ---------------------------------------------------------------------------

func (x *Exec) builtin(name string, c *ssa.CallCommon, args []Value, st *State) Value {
	w := x.u.W
	switch name {
	case "len":
		a := x.term(args[0])
		switch t := c.Args[0].Type().Underlying().(type) {
		case *types.Slice:
			return SlLen(a)
		case *types.Basic:
			return app(SInt, "s.len", a)
		case *types.Map:
			return x.mapLen(a, t, st)
		case *types.Array:
			return IntLit(t.Len())
		case *types.Pointer:
			return IntLit(t.Elem().Underlying().(*types.Array).Len())
		}
	case "cap":
		a := x.term(args[0])
		switch t := c.Args[0].Type().Underlying().(type) {
		case *types.Slice:
			return SlCap(a)
		case *types.Array:
			return IntLit(t.Len())
		}
	case "append":
		s := x.term(args[0])
		st0 := c.Args[0].Type().Underlying().(*types.Slice)
		if len(args) == 1 {
			return s
		}
		// detect the single-element varargs pattern: slice of a fresh [1]T array
		if sl, ok := c.Args[1].(*ssa.Slice); ok {
			if al, ok := sl.X.(*ssa.Alloc); ok {
				if at, ok := al.Type().Underlying().(*types.Pointer).Elem().Underlying().(*types.Array); ok && at.Len() == 1 && sl.Low == nil && sl.High == nil {
					// element value: read from heap
					l := x.locOf(x.val(al), al.Type(), st)
					hn, hs := x.heapOf(at.Elem())
					v := Select(st.Heap(hn, hs), l.Ptr)
					return x.appendOp(s, Term{}, st, st0.Elem(), &v)
				}
			}
		}
		if isString(c.Args[1].Type()) {
			x.fail("append(bytes, string...)")
		}
		t := x.term(args[1])
		return x.appendOp(s, t, st, st0.Elem(), nil)
	case "copy":
		dst := x.term(args[0])
		if isString(c.Args[1].Type()) {
			x.fail("copy from string")
		}
		src := x.term(args[1])
		et := c.Args[0].Type().Underlying().(*types.Slice).Elem()
		hn, hs := x.heapOf(et)
		n := w.Fresh("copy.n", SInt)
		x.assume(Eq(n, Ite(Lt(SlLen(dst), SlLen(src)), SlLen(dst), SlLen(src))))
		h := st.Heap(hn, hs)
		if x.frame != nil && !x.frame.any {
			x.obl("frame[copy "+hn+"]", "frame", "copy destination within modifies clause", st,
				Implies(Gt(n, IntLit(0)), Or(Ge(PBase(SlPtr(dst)), x.alloc0), x.frame.Writable(hn, Elem(dst, IntLit(0))))))
		}
		nh := w.Fresh(hn+"@copy", hs)
		x.assume(forallInt("i", IntLit(0), n, func(i Term) Term { return Eq(Select(nh, Elem(dst, i)), Select(h, Elem(src, i))) }))
		p := Term{"p!a", SPtr}
		inRange := And(Eq(PBase(p), PBase(SlPtr(dst))), Ge(PIdx(p), PIdx(SlPtr(dst))), Lt(PIdx(p), Add(PIdx(SlPtr(dst)), n)))
		x.assume(Term{fmt.Sprintf("(forall ((p!a Ptr)) (! (=> (not %s) (= (select %s p!a) (select %s p!a))) :pattern ((select %s p!a))))", inRange.S, nh.S, h.S, nh.S), SBool})
		st.SetHeap(hn, nh)
		return n
	case "delete":
		m := x.term(args[0])
		mt := c.Args[0].Type().Underlying().(*types.Map)
		x.mapDelete(m, mt, x.term(args[1]), st)
		return nil
	case "min", "max":
		r := x.term(args[0])
		for _, a := range args[1:] {
			t := x.term(a)
			if name == "min" {
				r = Ite(Lt(t, r), t, r)
			} else {
				r = Ite(Gt(t, r), t, r)
			}
		}
		return r
	case "panic":
		x.obl("safety[explicit-panic]", "safety", "panic unreachable", st, TFalse)
		return nil
	case "print", "println":
		return nil
	case "recover":
		return Term{"iface.nil", SIface}
	case "ssa:wrapnilchk":
		return args[0]
	case "ssa:deferstack":
		return TNil
	case "clear":
		x.fail("builtin clear")
	}
	x.fail("builtin %s on %s", name, c.Args[0].Type())
	return nil
}

// ---------------------------------------------------------------------------

func fnKey(fn *ssa.Function) (pkg string, key string) {
	if fn.Pkg != nil {
		pkg = fn.Pkg.Pkg.Path()
		key = fn.RelString(fn.Pkg.Pkg)
		return
	}
	// methods of external types / synthetic: derive from receiver
	if o := fn.Origin(); o != nil && o != fn {
		return fnKey(o)
	}
	if fn.Object() != nil && fn.Object().Pkg() != nil {
		pkg = fn.Object().Pkg().Path()
		key = fn.RelString(fn.Object().Pkg())
		return
	}
	if p := fn.Parent(); p != nil {
		pp, _ := fnKey(p)
		return pp, fn.RelString(nil)
	}
	return "", fn.String()
}

func (x *Exec) static(site ssa.Instruction, fn *ssa.Function, bindings []Value, args []Value, st *State) Value {
	eng := x.u.eng
	full := fn.String()
	if h, ok := intrinsics[full]; ok {
		return h(x, site, fn, args, st)
	}
	if fn.Synthetic != "" && fn.Blocks != nil && (strings.HasPrefix(fn.Synthetic, "wrapper") || strings.HasPrefix(fn.Synthetic, "bound") || strings.HasPrefix(fn.Synthetic, "thunk")) {
		return x.inline(site, fn, bindings, args, st)
	}
	if x.u.concurrent && bindings == nil {
		// concurrent mode: prefer the callee's second contract (typically "writes nothing when the
		// shared state is already built"); its requires become obligations here
		pk, key := fnKey(fn)
		if ac := eng.cs.Also[pk+"::"+key]; ac != nil && ac.Opts["interference"] != "yes" {
			// (a contract stated under interference is a statement about the function alone, verified
			// as a unit of its own; callers keep the primary contract)
			return x.modularCall(site, fn, ac, args, st)
		}
	}
	if fc := eng.contractFor(fn); fc != nil && (len(fc.Ensures) > 0 || len(fc.Requires) > 0 || fc.HasMod || fc.Assumed || fc.Pure) && bindings == nil {
		if fc.Opts["inline"] == "" {
			return x.modularCall(site, fn, fc, args, st)
		}
	}
	if isPureExternal(fn) {
		return x.pureCall(fn, args, st)
	}
	if readOnlyGeneric(fn, site) {
		// generic library functions that only read their arguments (maps.Keys, slices.Contains,
		// slices.ContainsFunc with a side-effect-free predicate ...): nothing is written, the
		// results are unknown values
		x.u.usedAssumed[full+" (reads its arguments only; result unconstrained)"] = true
		res := fn.Signature.Results()
		var vals []Value
		for i := 0; i < res.Len(); i++ {
			r := x.u.W.Fresh("r."+sanitize(full), x.u.W.SortOf(res.At(i).Type()))
			x.assumeTypeInv(r, res.At(i).Type(), x.curBlockReach, st)
			vals = append(vals, r)
		}
		return resultValue(vals)
	}
	if freshSliceResult(fn) {
		// library functions that build a new slice from their arguments (slices.Sorted, Collect,
		// Clone): nothing that exists is written, the result is fresh memory of unknown content
		x.u.usedAssumed[full+" (returns a freshly allocated slice, writes nothing; content unconstrained)"] = true
		allocBefore := st.alloc
		st.alloc = x.u.W.Fresh("alloc", SInt)
		x.assume(Ge(st.alloc, allocBefore))
		r := x.u.W.Fresh("r."+sanitize(full), x.u.W.SortOf(fn.Signature.Results().At(0).Type()))
		x.assume(Or(Eq(SlCap(r), IntLit(0)), And(Ge(PBase(SlPtr(r)), allocBefore), Lt(PBase(SlPtr(r)), st.alloc))))
		x.assumeTypeInv(r, fn.Signature.Results().At(0).Type(), x.curBlockReach, st)
		return r
	}
	if readOnlyExternal(fn) {
		// a side-effect-free library function over values and byte / string slices: it writes
		// nothing that exists, its results are unknown values (a returned slice is fresh memory)
		x.u.usedAssumed[full+" (side-effect free: writes nothing, result unconstrained)"] = true
		allocBefore := st.alloc
		res := fn.Signature.Results()
		var vals []Value
		for i := 0; i < res.Len(); i++ {
			r := x.u.W.Fresh("r."+sanitize(full), x.u.W.SortOf(res.At(i).Type()))
			if _, isSl := res.At(i).Type().Underlying().(*types.Slice); isSl {
				// the returned slice is memory allocated by the callee: the allocation counter moves
				// first, the validity facts of the result are stated against the new counter
				st.alloc = x.u.W.Fresh("alloc", SInt)
				x.assume(Ge(st.alloc, allocBefore))
				x.assume(Or(Eq(SlCap(r), IntLit(0)), And(Ge(PBase(SlPtr(r)), allocBefore), Lt(PBase(SlPtr(r)), st.alloc))))
			}
			x.assumeTypeInv(r, res.At(i).Type(), x.curBlockReach, st)
			vals = append(vals, r)
		}
		return resultValue(vals)
	}
	if eng.inRepo(fn) && fn.Blocks != nil {
		if x.depth < maxInlineDepth && !x.onStack(fn) {
			return x.inline(site, fn, bindings, args, st)
		}
		x.note("call to " + full + " not inlined (depth/recursion): havoc")
		return x.havocCall(site, fn.Signature, full, args, fn, st, true)
	}
	return x.havocCall(site, fn.Signature, full, args, fn, st, false)
}

func (x *Exec) onStack(fn *ssa.Function) bool {
	for _, f := range x.stack {
		if f == fn {
			return true
		}
	}
	return x.fn == fn
}

var purePkgs = map[string]bool{"strings": true, "unicode": true, "unicode/utf8": true, "math": true, "strconv": true, "path/filepath": true, "path": true, "errors": true, "math/bits": true}

var pureFuncs = map[string]bool{
	"fmt.Sprintf": true, "fmt.Errorf": true, "fmt.Sprint": true, "fmt.Sprintln": true,
	"(time.Duration).Milliseconds": true, "(time.Duration).Seconds": true, "(time.Duration).String": true, "(time.Duration).Nanoseconds": true,
	"(time.Duration).Microseconds": true, "(time.Duration).Minutes": true, "(time.Duration).Hours": true,
	"runtime.GOOS": true, "os.Getenv": true, "os.IsNotExist": true, "os.IsPermission": true, "os.IsExist": true,
	"(*regexp.Regexp).MatchString": true, "(*regexp.Regexp).FindAllString": false, "regexp.MustCompile": true,
	"(*regexp.Regexp).ReplaceAllString": true, "(*regexp.Regexp).FindStringSubmatch": false,
	"(*strings.Builder).String": false,
}

// readOnlyExternal: package-level functions of side-effect-free library packages whose parameters
// are values, strings and slices of basic types, and whose results are values, strings or slices
// of basic types.
var readOnlyPkgs = map[string]bool{"encoding/hex": true, "encoding/base64": true, "bytes": true, "strings": true, "strconv": true, "unicode/utf8": true, "unicode/utf16": true,
	"crypto/sha256": true, "crypto/sha1": true, "crypto/md5": true, "hash/fnv": false, "hash/crc32": true, "math": true, "math/bits": true, "html": true, "net/url": false, "path": true, "path/filepath": false}

var sliceReaders = map[string]bool{"encoding/hex.EncodeToString": true, "encoding/hex.Dump": true, "bytes.Equal": true, "bytes.Compare": true, "bytes.Contains": true, "bytes.Index": true,
	"bytes.IndexByte": true, "bytes.HasPrefix": true, "bytes.HasSuffix": true, "bytes.Count": true, "bytes.TrimSpace": false, "bytes.ToLower": true, "bytes.ToUpper": true, "bytes.EqualFold": true,
	"unicode/utf8.Valid": true, "unicode/utf8.RuneCount": true, "unicode/utf8.DecodeRune": true, "unicode/utf8.DecodeLastRune": true, "unicode/utf8.FullRune": true,
	"crypto/sha256.Sum256": true, "crypto/sha256.Sum224": true, "crypto/sha1.Sum": true, "crypto/md5.Sum": true, "hash/crc32.ChecksumIEEE": true, "strings.Join": true}

// readOnlyGeneric: generic functions of maps / slices that read their arguments and return values
// or iterators. Those that take a predicate are admitted only when the predicate at this call
// site is a function literal (or function) without side effects.
func readOnlyGeneric(fn *ssa.Function, site ssa.Instruction) bool {
	o := fn
	if og := fn.Origin(); og != nil {
		o = og
	}
	if o.Pkg == nil {
		return false
	}
	res := fn.Signature.Results()
	for i := 0; i < res.Len(); i++ {
		switch res.At(i).Type().Underlying().(type) {
		case *types.Basic, *types.Signature:
		default:
			return false
		}
	}
	switch o.Pkg.Pkg.Path() + "." + o.Name() {
	case "maps.Keys", "maps.Values", "maps.All", "slices.Contains", "slices.Index", "slices.Equal", "slices.IsSorted", "slices.Values", "slices.All":
		return true
	case "slices.ContainsFunc", "slices.IndexFunc", "slices.EqualFunc", "slices.IsSortedFunc":
		c, ok := site.(ssa.CallInstruction)
		if !ok {
			return false
		}
		for _, a := range c.Common().Args {
			if _, isSig := a.Type().Underlying().(*types.Signature); !isSig {
				continue
			}
			var f *ssa.Function
			switch v := resolveNaive(a).(type) {
			case *ssa.MakeClosure:
				f, _ = v.Fn.(*ssa.Function)
			case *ssa.Function:
				f = v
			}
			if f == nil || !sideEffectFree(f, 0) {
				if os.Getenv("GOVC_DEBUG") != "" {
					fmt.Fprintf(os.Stderr, "readOnlyGeneric %s: predicate %T %v not side-effect free (f=%v blocks=%d)\n", fn, resolveNaive(a), a, f, len(f.Blocks))
				}
				return false
			}
		}
		return true
	}
	return false
}

// sideEffectFree: f writes only its own locals, updates no map, sends on no channel, starts no
// goroutine and calls only pure / read-only library functions and side-effect-free repository
// functions.
func sideEffectFree(f *ssa.Function, depth int) bool {
	if f.Blocks == nil || depth > 4 {
		return false
	}
	dbg := func(in ssa.Instruction) {
		if os.Getenv("GOVC_DEBUG") != "" {
			fmt.Fprintf(os.Stderr, "sideEffectFree %s: rejected at %T %v\n", f, in, in)
		}
	}
	for _, b := range f.Blocks {
		for _, in := range b.Instrs {
			switch v := in.(type) {
			case *ssa.Store:
				if al, ok := v.Addr.(*ssa.Alloc); !ok || al.Parent() != f {
					dbg(in)
					return false
				}
			case *ssa.MapUpdate, *ssa.Send, *ssa.Go, *ssa.Defer, *ssa.Panic:
				dbg(in)
				return false
			case ssa.CallInstruction:
				com := v.Common()
				if _, isBuiltin := com.Value.(*ssa.Builtin); isBuiltin {
					if n := com.Value.(*ssa.Builtin).Name(); n == "len" || n == "cap" || n == "min" || n == "max" || n == "ssa:deferstack" {
						continue
					}
					dbg(in)
					return false
				}
				callee := com.StaticCallee()
				if callee == nil {
					dbg(in)
					return false
				}
				if isPureExternal(callee) || readOnlyExternal(callee) {
					continue
				}
				if !sideEffectFree(callee, depth+1) {
					dbg(in)
					return false
				}
			}
		}
	}
	return true
}

// freshSliceResult: generic library functions whose single result is a newly allocated slice.
func freshSliceResult(fn *ssa.Function) bool {
	o := fn
	if og := fn.Origin(); og != nil {
		o = og
	}
	if o.Pkg == nil || fn.Signature.Results().Len() != 1 {
		return false
	}
	if _, ok := fn.Signature.Results().At(0).Type().Underlying().(*types.Slice); !ok {
		return false
	}
	switch o.Pkg.Pkg.Path() + "." + o.Name() {
	case "slices.Sorted", "slices.SortedFunc", "slices.SortedStableFunc", "slices.Collect", "slices.Clone", "slices.Concat", "slices.Repeat", "maps.Keys.collect":
		return true
	}
	return false
}

func readOnlyExternal(fn *ssa.Function) bool {
	if fn.Pkg == nil || !readOnlyPkgs[fn.Pkg.Pkg.Path()] || fn.Signature.Recv() != nil || fn.Signature.Variadic() {
		return false
	}
	plain := func(t types.Type, allowSlice bool) bool {
		switch u := t.Underlying().(type) {
		case *types.Basic:
			return true
		case *types.Slice:
			_, ok := u.Elem().Underlying().(*types.Basic)
			return ok && allowSlice
		case *types.Array:
			_, ok := u.Elem().Underlying().(*types.Basic)
			return ok
		}
		return false
	}
	ps, rs := fn.Signature.Params(), fn.Signature.Results()
	for i := 0; i < ps.Len(); i++ {
		// a slice parameter may be a destination (hex.Encode, utf8.EncodeRune, strconv.AppendInt):
		// only functions known to read their slices are admitted with one
		if !plain(ps.At(i).Type(), sliceReaders[fn.String()]) {
			return false
		}
	}
	for i := 0; i < rs.Len(); i++ {
		if !plain(rs.At(i).Type(), true) && rs.At(i).Type().String() != "error" {
			return false
		}
	}
	return true
}

func isPureExternal(fn *ssa.Function) bool {
	full := fn.String()
	if v, ok := pureFuncs[full]; ok {
		return v
	}
	if fn.Pkg != nil && purePkgs[fn.Pkg.Pkg.Path()] && fn.Signature.Recv() == nil {
		// functions with slice/pointer results allocate: still deterministic in content, but
		// identity matters; treat only scalar/string/bool results as pure UFs
		res := fn.Signature.Results()
		for i := 0; i < res.Len(); i++ {
			switch res.At(i).Type().Underlying().(type) {
			case *types.Basic, *types.Interface:
			default:
				return false
			}
		}
		// function-typed parameters: identity of closures is not a value
		ps := fn.Signature.Params()
		for i := 0; i < ps.Len(); i++ {
			if _, ok := ps.At(i).Type().Underlying().(*types.Signature); ok {
				return false
			}
			if _, ok := ps.At(i).Type().Underlying().(*types.Slice); ok {
				return false
			}
		}
		return true
	}
	return false
}

func (x *Exec) pureCall(fn *ssa.Function, args []Value, st *State) Value {
	w := x.u.W
	var ts []Term
	for _, a := range args {
		ts = append(ts, x.term(a))
	}
	name := fn.String()
	x.u.usedPureUF[name] = true
	res := fn.Signature.Results()
	var vals []Value
	for i := 0; i < res.Len(); i++ {
		n := name
		if res.Len() > 1 {
			n = fmt.Sprintf("%s.r%d", name, i)
		}
		r := w.UF(n, w.SortOf(res.At(i).Type()), ts...)
		x.assumeTypeInv(r, res.At(i).Type(), x.curBlockReach, st)
		if name == "fmt.Errorf" || name == "errors.New" {
			x.assume(Not(Eq(r, Term{"iface.nil", SIface})))
		}
		vals = append(vals, r)
	}
	return resultValue(vals)
}

// ---------------------------------------------------------------------------
// Inlining

func (x *Exec) inline(site ssa.Instruction, fn *ssa.Function, bindings []Value, args []Value, st *State) Value {
	if fn.Blocks == nil {
		x.fail("inline of function without body %s", fn)
	}
	u := x.u
	u.inlined[fn.String()] = true
	sub := &Exec{u: u, fn: fn, regs: map[ssa.Value]Value{}, depth: x.depth + 1, frame: x.frame, alloc0: x.alloc0,
		stack: append(append([]*ssa.Function(nil), x.stack...), x.fn), pure: x.pure, cellable: x.cellable, freshBases: x.freshBases}
	sub.fc = u.eng.contractFor(fn)
	sub.prefix = x.prefix + " > " + fnDisplayName(fn)
	if len(fn.Params) != len(args) {
		x.fail("inline %s: %d params, %d args", fn, len(fn.Params), len(args))
	}
	for i, p := range fn.Params {
		sub.regs[p] = args[i]
	}
	for i, fv := range fn.FreeVars {
		if i < len(bindings) {
			sub.regs[fv] = bindings[i]
		}
	}
	savedDefers := st.defers
	st.defers = nil
	sub.entry = st.Clone()
	sub.bindParams()
	reach := x.curBlockReach
	sub.run(st, reach)
	x.curInstr = site
	x.curBlockReach = reach
	if len(sub.rets) == 0 {
		x.assume(TFalse)
		var vals []Value
		res := fn.Signature.Results()
		for i := 0; i < res.Len(); i++ {
			vals = append(vals, u.W.Zero(res.At(i).Type()))
		}
		st.defers = savedDefers
		return resultValue(vals)
	}
	var edges []mergeEdge
	for _, r := range sub.rets {
		edges = append(edges, mergeEdge{r.reach, r.st})
	}
	var merged *State
	if len(edges) == 1 {
		merged = edges[0].st
		// partial correctness: what follows the call is reached only if the callee returned
		if !x.pure {
			x.assume(edges[0].cond)
		}
	} else {
		var rr Term
		merged, rr = x.merge(edges, "ret."+shortFn(fn))
		if !x.pure {
			x.assume(rr)
		}
	}
	// results
	n := fn.Signature.Results().Len()
	vals := make([]Value, n)
	for i := 0; i < n; i++ {
		var vs []Value
		for _, r := range sub.rets {
			v := r.vals[i]
			if lv, ok := v.(*Loc); ok && lv.Kind == "heap" && len(lv.Path) == 0 && len(sub.rets) > 1 {
				v = lv.Ptr
			}
			vs = append(vs, v)
		}
		same := true
		for _, v := range vs[1:] {
			if !valueEq(v, vs[0]) {
				same = false
			}
		}
		if same {
			vals[i] = vs[0]
			continue
		}
		var ts []Term
		for _, v := range vs {
			ts = append(ts, x.term(v))
		}
		if x.pure {
			t := ts[len(ts)-1]
			for j := len(ts) - 2; j >= 0; j-- {
				t = Ite(sub.rets[j].reach, ts[j], t)
			}
			vals[i] = t
		} else {
			sym := u.W.Fresh("ret."+shortFn(fn), ts[0].Sort)
			for j, r := range sub.rets {
				u.AssumeRaw(Implies(r.reach, Eq(sym, ts[j])))
			}
			vals[i] = sym
		}
	}
	*st = *merged
	st.defers = savedDefers
	return resultValue(vals)
}

// ---------------------------------------------------------------------------
// Havoc

// typeClosureHeaps: heap names reachable by type from t.
func (x *Exec) typeClosureHeaps(t types.Type, out map[string]bool, seen map[string]bool, viaPtr bool) {
	k := typeKey(t)
	if seen[k+fmt.Sprint(viaPtr)] {
		return
	}
	seen[k+fmt.Sprint(viaPtr)] = true
	switch tt := t.Underlying().(type) {
	case *types.Pointer:
		out[heapName(tt.Elem())] = true
		x.typeClosureHeaps(tt.Elem(), out, seen, true)
	case *types.Slice:
		out[heapName(tt.Elem())] = true
		x.typeClosureHeaps(tt.Elem(), out, seen, true)
	case *types.Map:
		md, mv, mc, _, _ := mapHeaps(x.u.W, tt)
		out[md], out[mv], out[mc] = true, true, true
		x.typeClosureHeaps(tt.Elem(), out, seen, true)
		x.typeClosureHeaps(tt.Key(), out, seen, true)
	case *types.Struct:
		for i := 0; i < tt.NumFields(); i++ {
			x.typeClosureHeaps(tt.Field(i).Type(), out, seen, viaPtr)
		}
	case *types.Array:
		x.typeClosureHeaps(tt.Elem(), out, seen, viaPtr)
	case *types.Interface:
		out["*iface*"] = true
	}
}

func (x *Exec) havocCall(site ssa.Instruction, sig *types.Signature, name string, args []Value, fn *ssa.Function, st *State, everything bool) Value {
	u := x.u
	if x.pure {
		x.fail("call to %s in pure context", name)
	}
	u.havocCalls[name] = true
	heaps := map[string]bool{}
	seen := map[string]bool{}
	params := sig.Params()
	for i := 0; i < params.Len(); i++ {
		x.typeClosureHeaps(params.At(i).Type(), heaps, seen, false)
	}
	if sig.Recv() != nil {
		x.typeClosureHeaps(sig.Recv().Type(), heaps, seen, false)
	}
	if fn != nil {
		for _, p := range fn.Params {
			x.typeClosureHeaps(p.Type(), heaps, seen, false)
		}
	}
	// arguments that are addresses of cells: havoc the cell
	for i, a := range args {
		if l, ok := a.(*Loc); ok && l.Kind == "cell" {
			_ = i
			t := l.elemType()
			nv := u.W.Fresh("out."+cellName(l.Key), u.W.SortOf(t))
			x.store(l, nv, st)
		}
	}
	all := everything || heaps["*iface*"]
	if fn != nil && !u.eng.inRepo(fn) && fn.Pkg != nil && safeExternalPkg(fn.Pkg.Pkg.Path()) {
		all = false
	}
	// interface-typed arguments that wrap a pointer or a slice (binary.Read(r, order, &n),
	// io.ReadFull(r, buf) ...): the callee may write through them
	type span struct {
		heap string
		pred func(p Term) Term
	}
	var spans []span
	for _, a := range args {
		t, ok := a.(Term)
		if !ok {
			continue
		}
		bv, ok := u.boxed[t.S]
		if !ok {
			continue
		}
		switch bt := bv.T.Underlying().(type) {
		case *types.Pointer:
			if pv, ok := bv.V.(Term); ok {
				hn, _ := x.heapOf(bt.Elem())
				heaps[hn] = true
				pp := pv
				spans = append(spans, span{hn, func(p Term) Term { return Eq(p, pp) }})
				x.typeClosureHeaps(bt.Elem(), heaps, seen, true)
			} else if lv, ok := bv.V.(*Loc); ok && lv.Kind == "heap" && len(lv.Path) == 0 {
				hn, _ := x.heapOf(bt.Elem())
				heaps[hn] = true
				pp := lv.Ptr
				spans = append(spans, span{hn, func(p Term) Term { return Eq(p, pp) }})
			}
		case *types.Slice:
			if sv, ok := bv.V.(Term); ok {
				hn, _ := x.heapOf(bt.Elem())
				heaps[hn] = true
				ss := sv
				spans = append(spans, span{hn, func(p Term) Term {
					return And(Eq(PBase(p), PBase(SlPtr(ss))), Ge(PIdx(p), PIdx(SlPtr(ss))), Lt(PIdx(p), Add(PIdx(SlPtr(ss)), SlCap(ss))))
				}})
			}
		}
	}
	_ = spans
	pre := st.Clone()
	allocBefore := st.alloc
	st.alloc = u.W.Fresh("alloc", SInt)
	x.assume(Ge(st.alloc, allocBefore))
	delete(heaps, "*iface*")
	aa := st.alloc
	g := &Gen{kind: "havoc", parent: pre, guard: x.curBlockReach, tag: "c", allocBefore: allocBefore, allocAfter: &aa}
	if !all && len(heaps) == 0 {
		g = pre.gen // nothing pre-existing can be written: keep the heaps
	} else {
		st.heaps = map[string]Term{}
	}
	if !all {
		hs := heaps
		if g != pre.gen {
			g.only = hs
		}
		g.writable = func(heap string, p Term) Term {
			if hs[heap] {
				return TTrue
			}
			return TFalse
		}
	}
	st.gen = g
	// the frame of the function under verification must admit what the callee may write
	if x.frame != nil && !x.frame.any {
		kind := "frame"
		if fn == nil || !u.eng.inRepo(fn) {
			kind = "frame-unmodelled" // a library function without contract: a failure here decides nothing (see check.go)
		}
		if all {
			x.obl("frame[call "+name+"]", kind, "call without contract may write anything", st, TFalse)
		} else {
			for _, h := range keys(heaps) {
				if h == "*iface*" {
					continue
				}
				// conservative: the callee may write any pre-existing location of these heaps
				p := u.W.Fresh("anyp", SPtr)
				x.obl("frame[call "+name+" "+h+"]", kind, "callee without contract may write heap "+h, st, Or(Ge(PBase(p), x.alloc0), x.frame.Writable(h, p)))
			}
		}
	}
	if all {
		// globals may change
		gk := map[interface{}]bool{}
		for k := range st.cells {
			gk[k] = true
		}
		for _, k := range sortedKeys(gk) {
			if g, ok := k.(*ssa.Global); ok {
				t := g.Type().Underlying().(*types.Pointer).Elem()
				st.cells[k] = u.W.Fresh("g."+g.Name(), u.W.SortOf(t))
			}
		}
		st.gdirty = true
	}
	res := sig.Results()
	var vals []Value
	for i := 0; i < res.Len(); i++ {
		r := u.W.Fresh("r."+sanitize(name), u.W.SortOf(res.At(i).Type()))
		x.assumeTypeInv(r, res.At(i).Type(), x.curBlockReach, st)
		vals = append(vals, r)
	}
	return resultValue(vals)
}

func safeExternalPkg(p string) bool {
	switch p {
	case "fmt", "strings", "strconv", "unicode", "math", "sort", "errors", "os", "path/filepath", "time", "regexp", "bytes", "io", "bufio",
		"encoding/json", "encoding/binary", "gopkg.in/yaml.v3", "container/list", "sync", "sync/atomic", "unicode/utf8", "log", "runtime":
		return true
	}
	return false
}

// ---------------------------------------------------------------------------
// Modular call against a contract

func resultNames(sig *types.Signature) []string {
	res := sig.Results()
	names := make([]string, res.Len())
	for i := 0; i < res.Len(); i++ {
		n := res.At(i).Name()
		if n == "" || n == "_" {
			if res.Len() == 1 {
				n = "result"
			} else {
				n = fmt.Sprintf("result%d", i)
			}
		}
		names[i] = n
	}
	return names
}

func (x *Exec) modularCall(site ssa.Instruction, fn *ssa.Function, fc *FuncContract, args []Value, st *State) Value {
	u := x.u
	if x.pure && !fc.Pure {
		x.fail("modular call to %s in pure context", fn)
	}
	full := fn.String()
	if fc.Assumed {
		u.usedAssumed[full] = true
	}
	pkg := u.eng.typesPkgFor(fc.Pkg)
	vars := map[string]SVal{}
	var argTerms []Term
	for i, p := range fn.Params {
		if i >= len(args) {
			break
		}
		if l, ok := args[i].(*Loc); ok && (l.Kind != "heap" || len(l.Path) != 0) {
			// address of a cell passed to a contracted callee: give it a pseudo pointer via escape
			x.fail("address of local passed to contracted function %s", fn)
		}
		t := x.term(args[i])
		argTerms = append(argTerms, t)
		vars[p.Name()] = SVal{T: t, GT: p.Type()}
	}
	// ghost: number of calls of this contracted function on the current path
	ck := "calls:" + fnDisplayName(fn)
	if !x.pure {
		if c, ok := st.cells[ck].(Term); ok {
			st.cells[ck] = Add(c, IntLit(1))
		} else {
			st.cells[ck] = IntLit(1)
		}
	}
	pre := st.Clone()
	callName := fmt.Sprintf("call %s", fnDisplayName(fn))
	// requires
	for i, rq := range fc.Requires {
		env := &SpecEnv{owner: fn, u: u, x: x, pkg: pkg, vars: vars, bound: map[string]SVal{}, cur: pre, old: pre, reach: x.curBlockReach}
		g, err := env.EvalBool(rq.Expr)
		if err != nil {
			u.Errorf("%s: requires %q at call in %s: %v", full, rq.Text, x.fn, err)
			continue
		}
		x.obl(fmt.Sprintf("%s / requires[%s]", callName, clauseName(rq, i)), "requires", rq.Text, st, g)
	}
	// the callee's unit-local interpretations of declared-only spec functions are premises of the
	// postconditions that mention them. A caller that interprets the same function itself must
	// prove that its interpretation, at the actual arguments, is the callee's (an obligation); a
	// caller that does not gets those postconditions only under the premise.
	var premises []Term
	premiseOf := map[string]bool{}
	for i, d := range fc.Defines {
		closed, fname, _ := closedDefinition(d.Expr)
		if closed {
			continue // a global definition of the spec function, not an interpretation relative to the callee's parameters
		}
		env := &SpecEnv{owner: fn, u: u, x: x, pkg: pkg, vars: vars, bound: map[string]SVal{}, cur: pre, old: pre, reach: x.curBlockReach}
		g, err := env.EvalBool(d.Expr)
		if err != nil {
			u.Errorf("%s: defines %q at call in %s: %v", full, d.Text, x.fn, err)
			continue
		}
		callerInterprets := false
		if x.fc != nil {
			for _, cd := range x.fc.Defines {
				if _, cf, _ := closedDefinition(cd.Expr); cf == fname && fname != "" {
					callerInterprets = true
				}
			}
		}
		if callerInterprets {
			x.obl(fmt.Sprintf("%s / defines[%s]", callName, clauseName(d, i)), "requires", "callee's interpretation holds in the caller: "+d.Text, st, g)
		} else {
			premises = append(premises, g)
			premiseOf[fname] = true
		}
	}
	// frame
	callee := x.frameFromContract(fc, fn, vars, pkg, pre)
	if x.frame != nil && !x.frame.any && !x.pure {
		if callee.any {
			x.obl(callName+" / frame", "frame", "callee has no modifies clause", st, TFalse)
		}
		for _, it := range callee.items {
			p := u.W.Fresh("fp", SPtr)
			goal := Implies(it.pred(p), Or(Ge(PBase(p), x.alloc0), x.frame.Writable(it.heap, p)))
			x.obl(callName+" / frame["+it.text+"]", "frame", "callee's modifies "+it.text+" within caller's", st, goal)
		}
	}
	// concurrent mode: a callee that may write existing memory is either itself verified in
	// concurrent mode, or runs while this call holds a mutex exclusively
	if !x.pure && x.u.concurrent && (callee.any || len(callee.items) > 0) && fc.Opts["concurrent"] != "yes" && !fc.Assumed {
		x.obl(callName+" / guard[unsynchronised callee]", "lock", "a callee that writes shared memory runs under an exclusive lock or is itself verified in concurrent mode", st, x.someExclusiveLock(st))
	}
	// shared-mode lock discipline: a callee that may write existing memory must not run while a
	// mutex is held in shared mode only
	if !x.pure && (callee.any || len(callee.items) > 0) {
		for k := range x.u.lockKeys {
			held, ok := st.cells[k].(Term)
			if !ok || held.S == "0" || held.S == "2" {
				continue
			}
			for _, it := range callee.items {
				p := u.W.Fresh("fp", SPtr)
				x.obl(callName+" / guard[shared-mode write]", "lock", "while a mutex is held in shared mode the callee writes only memory allocated by this call", st,
					Implies(And(Eq(held, IntLit(1)), it.pred(p)), Ge(PBase(p), x.alloc0)))
			}
			if callee.any {
				x.obl(callName+" / guard[shared-mode write]", "lock", "while a mutex is held in shared mode the callee writes only memory allocated by this call", st, Not(Eq(held, IntLit(1))))
			}
		}
	}
	// post state
	res := fn.Signature.Results()
	names := resultNames(fn.Signature)
	var vals []Value
	postVars := map[string]SVal{}
	for k, v := range vars {
		postVars[k] = v
	}
	if !x.pure {
		allocBefore := st.alloc
		st.alloc = u.W.Fresh("alloc", SInt)
		x.assume(Ge(st.alloc, allocBefore))
		st.heaps = map[string]Term{}
		aa := st.alloc
		g := &Gen{kind: "havoc", parent: pre, guard: x.curBlockReach, tag: "c." + shortFn(fn), allocBefore: allocBefore, allocAfter: &aa}
		if !callee.any {
			cf := callee
			g.writable = func(heap string, p Term) Term { return cf.Writable(heap, p) }
			g.only = map[string]bool{}
			for _, it := range cf.items {
				if it.heap == "*" {
					g.only = nil
					break
				}
				g.only[it.heap] = true
			}
		}
		if fc.Pure && len(callee.items) == 0 && fc.Opts["allocates"] == "" {
			// pure functions leave the heap alone
			st.heaps = pre.heaps
			st.gen = pre.gen
			st.alloc = allocBefore
		} else {
			st.gen = g
		}
	}
	for i := 0; i < res.Len(); i++ {
		var r Term
		sort := u.W.SortOf(res.At(i).Type())
		if fc.Pure {
			n := full
			if res.Len() > 1 {
				n = fmt.Sprintf("%s.r%d", full, i)
			}
			r = u.W.UF(n, sort, argTerms...)
			u.usedPureUF[full] = true
		} else {
			r = u.W.Fresh("r."+shortFn(fn), sort)
		}
		x.assumeTypeInv(r, res.At(i).Type(), x.curBlockReach, st)
		vals = append(vals, r)
		postVars[names[i]] = SVal{T: r, GT: res.At(i).Type()}
	}
	if !x.pure {
		for _, en := range fc.Ensures {
			if en.Private {
				continue
			}
			env := &SpecEnv{owner: fn, u: u, x: x, pkg: pkg, vars: postVars, bound: map[string]SVal{}, cur: st, old: pre, reach: x.curBlockReach, callSite: true, noAlts: true}
			g, err := env.EvalBool(en.Expr)
			if err != nil {
				u.Errorf("%s: ensures %q at call in %s: %v", full, en.Text, x.fn, err)
				continue
			}
			if len(premises) > 0 && x.u.eng.specMentions(en.Expr, premiseOf, fc.Pkg) {
				g = Implies(And(premises...), g)
			}
			x.assume(g)
		}
	}
	return resultValue(vals)
}

// frameFromContract evaluates a modifies clause in the given (pre) state.
func (x *Exec) frameFromContract(fc *FuncContract, fn *ssa.Function, vars map[string]SVal, pkg *types.Package, pre *State) *Frame {
	u := x.u
	fr := &Frame{}
	if fc == nil {
		fr.any = true
		return fr
	}
	if !fc.HasMod {
		if fc.Assumed && !fc.Pure && len(fc.Ensures) == 0 {
			fr.any = true
		}
		return fr // nothing
	}
	for _, item := range fc.Modifies {
		if item == "anything" {
			fr.any = true
			continue
		}
		env := &SpecEnv{owner: fn, u: u, x: x, pkg: pkg, vars: vars, bound: map[string]SVal{}, cur: pre, old: pre, reach: TTrue}
		its, err := env.frameItem(item)
		if err != nil {
			u.Errorf("%s: modifies %q: %v", fc.Key, item, err)
			fr.any = true
			continue
		}
		fr.items = append(fr.items, its...)
	}
	return fr
}

// ---------------------------------------------------------------------------
// Intrinsics

type intrinsic func(x *Exec, site ssa.Instruction, fn *ssa.Function, args []Value, st *State) Value

var intrinsics map[string]intrinsic

func init() {
	intrinsics = map[string]intrinsic{
		"sort.Slice":       sortSlice,
		"sort.SliceStable": sortSlice,
		"sort.Ints":        sortBasic,
		"sort.Strings":     sortBasic,
		"sort.Float64s":    sortBasic,
		"time.Now":         timeNow,
		"time.Since":       timeSince,
		"(time.Time).Sub":  timeSub,
		"(time.Time).After": func(x *Exec, site ssa.Instruction, fn *ssa.Function, args []Value, st *State) Value {
			return Gt(x.timeNs(x.term(args[0])), x.timeNs(x.term(args[1])))
		},
		"(time.Time).Before": func(x *Exec, site ssa.Instruction, fn *ssa.Function, args []Value, st *State) Value {
			return Lt(x.timeNs(x.term(args[0])), x.timeNs(x.term(args[1])))
		},
		"strings.Map": stringsMap,
		"sync/atomic.AddInt64": func(x *Exec, site ssa.Instruction, fn *ssa.Function, args []Value, st *State) Value {
			l := x.locOf(args[0], fn.Signature.Params().At(0).Type(), st)
			nv := Add(x.term(x.load(l, st)), x.term(args[1]))
			x.atomicOp = true
			x.store(l, nv, st)
			x.atomicOp = false
			return nv
		},
		"sync/atomic.LoadInt64": func(x *Exec, site ssa.Instruction, fn *ssa.Function, args []Value, st *State) Value {
			return x.load(x.locOf(args[0], fn.Signature.Params().At(0).Type(), st), st)
		},
		"sync/atomic.StoreInt64": func(x *Exec, site ssa.Instruction, fn *ssa.Function, args []Value, st *State) Value {
			x.atomicOp = true
			x.store(x.locOf(args[0], fn.Signature.Params().At(0).Type(), st), args[1], st)
			x.atomicOp = false
			return nil
		},
		"encoding/json.Unmarshal":    unmarshalLike(1),
		"encoding/binary.Read":       unmarshalLike(2),
		"gopkg.in/yaml.v3.Unmarshal": unmarshalLike(1),
		"(*sync.RWMutex).Lock":       lockOp("W", true),
		"(*sync.RWMutex).Unlock":     lockOp("W", false),
		"(*sync.RWMutex).RLock":      lockOp("R", true),
		"(*sync.RWMutex).RUnlock":    lockOp("R", false),
		"(*sync.Mutex).Lock":         lockOp("W", true),
		"(*sync.Mutex).Unlock":       lockOp("W", false),
	}
}

func (x *Exec) timeNs(t Term) Term { return x.u.W.UF("time.ns", SInt, t) }

func timeNow(x *Exec, site ssa.Instruction, fn *ssa.Function, args []Value, st *State) Value {
	w := x.u.W
	r := w.Fresh("now", w.SortOf(fn.Signature.Results().At(0).Type()))
	ns := x.timeNs(r)
	if last, ok := st.cells["ghost.now"].(Term); ok {
		x.assume(Ge(ns, last))
	}
	st.cells["ghost.now"] = ns
	return r
}

func timeSince(x *Exec, site ssa.Instruction, fn *ssa.Function, args []Value, st *State) Value {
	now := timeNow(x, site, fn, nil, st).(Term)
	return Sub(x.timeNs(now), x.timeNs(x.term(args[0])))
}

func timeSub(x *Exec, site ssa.Instruction, fn *ssa.Function, args []Value, st *State) Value {
	return Sub(x.timeNs(x.term(args[0])), x.timeNs(x.term(args[1])))
}

// lock ghost: cell "lock:<loc>" holds 0 (none), 1 (R), 2 (W).
func lockOp(mode string, acquire bool) intrinsic {
	return func(x *Exec, site ssa.Instruction, fn *ssa.Function, args []Value, st *State) Value {
		key := "lock:"
		switch a := args[0].(type) {
		case *Loc:
			key += a.String()
		case Term:
			key += a.S
		}
		held, ok := st.cells[key].(Term)
		if !ok {
			held = IntLit(0)
		}
		want := IntLit(2)
		if mode == "R" {
			want = IntLit(1)
		}
		if acquire {
			x.obl("lock[not-held-on-acquire]", "lock", "mutex is not already held by this call (self-deadlock)", st, Eq(held, IntLit(0)))
			st.cells[key] = want
			if l, ok := args[0].(*Loc); ok && x.u.interference {
				x.interfere(l, st)
			}
			if _, released := st.cells["lock:released"]; released && x.fc != nil && x.fc.Opts["interference"] == "frame" {
				// a second critical section: whatever this call may write, other goroutines may have
				// written in between - within the same frame, re-establishing the same invariant
				x.interfereFrame(st)
			}
		} else {
			x.obl("lock[held-on-release]", "lock", "mutex released in the mode it was acquired", st, Eq(held, want))
			st.cells[key] = IntLit(0)
			st.cells["lock:released"] = IntLit(1)
		}
		x.u.lockKeys[key] = true
		return nil
	}
}

// interfere: the mutex at l was just acquired in a unit verified under interference. Between the
// last release (or the call's entry) and now other goroutines ran: the add-only maps this mutex
// guards are replaced by an arbitrary extension of what they were (every old entry kept with
// its value, any number of new entries).
func (x *Exec) interfere(l *Loc, st *State) {
	if l.Kind != "heap" || len(l.Path) != 1 || l.Path[0].Index != nil {
		return
	}
	named, ok := l.Root.(*types.Named)
	if !ok || named.Obj().Pkg() == nil {
		return
	}
	g := x.u.eng.cs.Guards[named.Obj().Pkg().Path()+"."+named.Obj().Name()]
	stt := structOf(l.Root)
	if g == nil || stt == nil || stt.Field(l.Path[0].Field).Name() != g.Mutex {
		return
	}
	w := x.u.W
	for i := 0; i < stt.NumFields(); i++ {
		f := stt.Field(i)
		if !g.AddOnly[f.Name()] {
			continue
		}
		mt, ok := f.Type().Underlying().(*types.Map)
		if !ok {
			continue
		}
		fl := &Loc{Kind: "heap", Ptr: l.Ptr, Root: l.Root, Path: []PathElem{{Field: i, T: l.Root}}}
		m := x.term(x.load(fl, st))
		x.noteGuardedContents(fl, m)
		md, mv, mc, ks, vs := mapHeaps(w, mt)
		hd := st.Heap(md, ArraySort(SPtr, ArraySort(ks, SBool)))
		hv := st.Heap(mv, ArraySort(SPtr, ArraySort(ks, vs)))
		hc := st.Heap(mc, ArraySort(SPtr, SInt))
		nd := w.Fresh("dom@others", ArraySort(ks, SBool))
		nv := w.Fresh("val@others", ArraySort(ks, vs))
		nc := w.Fresh("cnt@others", SInt)
		od, ov := Select(hd, m), Select(hv, m)
		x.assume(Term{fmt.Sprintf("(forall ((k!q %s)) (! (=> (select %s k!q) (and (select %s k!q) (= (select %s k!q) (select %s k!q)))) :pattern ((select %s k!q)) :pattern ((select %s k!q))))", ks, od.S, nd.S, nv.S, ov.S, nd.S, nv.S), SBool})
		x.assume(Ge(nc, Select(hc, m)))
		st.SetHeap(md, Store(hd, m, nd))
		st.SetHeap(mv, Store(hv, m, nv))
		st.SetHeap(mc, Store(hc, m, nc))
	}
}

// interfereFrame: between two critical sections of one call other goroutines ran. They are
// calls of the same interface: each writes within the frame this unit's modifies clause names and
// re-establishes the unit's precondition (the representation invariant). The state is havocked
// accordingly; what the call learnt in its first critical section is gone unless the invariant
// or the frame preserves it.
func (x *Exec) interfereFrame(st *State) {
	u := x.u
	pre := st.Clone()
	allocBefore := st.alloc
	st.alloc = u.W.Fresh("alloc", SInt)
	x.assume(Ge(st.alloc, allocBefore))
	st.heaps = map[string]Term{}
	aa := st.alloc
	g := &Gen{kind: "havoc", parent: pre, guard: x.curBlockReach, tag: "others", allocBefore: allocBefore, allocAfter: &aa}
	if fr := x.frame; fr != nil && !fr.any {
		g.writable = func(heap string, p Term) Term { return fr.Writable(heap, p) }
		g.only = map[string]bool{}
		for _, it := range fr.items {
			if it.heap == "*" {
				g.only = nil
				break
			}
			g.only[it.heap] = true
		}
	}
	st.gen = g
	for _, rq := range x.fc.Requires {
		env := x.specEnv(st, nil)
		env.locals = false
		env.noAlts = true
		t, err := env.EvalBool(rq.Expr)
		if err != nil {
			u.Errorf("%s: requires %q after interference: %v", x.fn, rq.Text, err)
			continue
		}
		x.assume(t)
	}
}

// permuteSlice: the slice is permuted in place (frame obligation, fresh heap version related to
// the old one by a permutation of the slice's indices). Returns heap name, new heap, length.
func (x *Exec) permuteSlice(sl Term, elem types.Type, st *State) (string, Term, Term) {
	w := x.u.W
	hn, hs := x.heapOf(elem)
	h := st.Heap(hn, hs)
	n := SlLen(sl)
	if x.frame != nil && !x.frame.any {
		p := w.Fresh("fp", SPtr)
		inr := And(Eq(PBase(p), PBase(SlPtr(sl))), Ge(PIdx(p), PIdx(SlPtr(sl))), Lt(PIdx(p), Add(PIdx(SlPtr(sl)), n)))
		x.obl("frame[sort "+hn+"]", "frame", "sorted slice within modifies clause", st, Implies(inr, Or(Ge(PBase(p), x.alloc0), x.frame.Writable(hn, p))))
	}
	nh := w.Fresh(hn+"@sort", hs)
	w.fresh++
	pi := fmt.Sprintf("pi!%d", w.fresh)
	pinv := fmt.Sprintf("pinv!%d", w.fresh)
	w.decls = append(w.decls, fmt.Sprintf("(declare-fun %s (Int) Int)", pi), fmt.Sprintf("(declare-fun %s (Int) Int)", pinv))
	piOf := func(k Term) Term { return app(SInt, pi, k) }
	pinvOf := func(k Term) Term { return app(SInt, pinv, k) }
	// frame: everything outside the slice unchanged
	p := Term{"p!a", SPtr}
	inRange := And(Eq(PBase(p), PBase(SlPtr(sl))), Ge(PIdx(p), PIdx(SlPtr(sl))), Lt(PIdx(p), Add(PIdx(SlPtr(sl)), n)))
	x.assume(Term{fmt.Sprintf("(forall ((p!a Ptr)) (! (=> (not %s) (= (select %s p!a) (select %s p!a))) :pattern ((select %s p!a))))", inRange.S, nh.S, h.S, nh.S), SBool})
	// permutation
	k := Term{"k!q", SInt}
	inb := func(t Term) Term { return And(Ge(t, IntLit(0)), Lt(t, n)) }
	// pi is a bijection of the integers with inverse pinv that maps the index range onto itself
	// (the permutation extended by the identity): the two inverse laws are unconditional unit
	// equalities, so the solver merges pinv(pi k) with k as soon as either term appears and the
	// instantiation chains pi(pinv(pi ...)) stop at once. The element laws are triggered only by
	// a read of "their" heap at the slice.
	x.assume(Term{fmt.Sprintf("(forall ((k!q Int)) (! (and (= (%s (%s k!q)) k!q) (= %s %s)) :pattern ((%s k!q))))", pinv, pi, inb(piOf(k)).S, inb(k).S, pi), SBool})
	x.assume(Term{fmt.Sprintf("(forall ((k!q Int)) (! (and (= (%s (%s k!q)) k!q) (= %s %s)) :pattern ((%s k!q))))", pi, pinv, inb(pinvOf(k)).S, inb(k).S, pinv), SBool})
	fwd := Eq(Select(nh, Elem(sl, k)), Select(h, Elem(sl, piOf(k))))
	x.assume(Term{fmt.Sprintf("(forall ((k!q Int)) (! (=> %s %s) :pattern ((select %s %s))))", inb(k).S, fwd.S, nh.S, Elem(sl, k).S), SBool})
	bwd := Eq(Select(h, Elem(sl, k)), Select(nh, Elem(sl, pinvOf(k))))
	x.assume(Term{fmt.Sprintf("(forall ((k!q Int)) (! (=> %s %s) :pattern ((select %s %s))))", inb(k).S, bwd.S, h.S, Elem(sl, k).S), SBool})
	return hn, nh, n
}

// sort.Ints / sort.Strings / sort.Float64s: in-place permutation, ascending afterwards.
func sortBasic(x *Exec, site ssa.Instruction, fn *ssa.Function, args []Value, st *State) Value {
	sl := x.term(args[0])
	stype := site.(ssa.CallInstruction).Common().Args[0].Type().Underlying().(*types.Slice)
	hn, nh, n := x.permuteSlice(sl, stype.Elem(), st)
	st.SetHeap(hn, nh)
	a := Term{"a!q", SInt}
	b := Term{"b!q", SInt}
	ea, eb := Select(nh, Elem(sl, a)), Select(nh, Elem(sl, b))
	var ord Term
	if x.u.W.SortOf(stype.Elem()) == SStr {
		ord = Not(app(SBool, "s.lt", eb, ea))
	} else {
		ord = Le(ea, eb)
	}
	cond := And(Le(IntLit(0), a), Lt(a, b), Lt(b, n))
	x.assume(Term{fmt.Sprintf("(forall ((a!q Int) (b!q Int)) (=> %s %s))", cond.S, ord.S), SBool})
	return nil
}

// sort.Slice(x, less): in-place permutation, sorted w.r.t. less afterwards.
func sortSlice(x *Exec, site ssa.Instruction, fn *ssa.Function, args []Value, st *State) Value {
	u := x.u
	w := u.W
	// first arg is an interface wrapping the slice
	ssaArg := site.(ssa.CallInstruction).Common().Args[0]
	mi, ok := ssaArg.(*ssa.MakeInterface)
	if !ok {
		x.fail("sort.Slice: argument is not a direct slice")
	}
	sl := x.term(x.val(mi.X))
	stype, ok := mi.X.Type().Underlying().(*types.Slice)
	if !ok {
		x.fail("sort.Slice on non-slice")
	}
	less, ok := args[1].(*Closure)
	if !ok {
		x.fail("sort.Slice: comparator is not a closure literal")
	}
	hn, nh, n := x.permuteSlice(sl, stype.Elem(), st)
	if x.fc != nil && x.fc.Opts["sort-total"] == "yes" && !x.pure {
		// the comparator orders every two distinct positions of the slice as it is handed to the
		// sort: the sorted arrangement is then unique (no ties left to the sorting algorithm)
		a := Term{"a!t", SInt}
		b := Term{"b!t", SInt}
		lab, err1 := x.evalClosurePure(less, []Value{a, b}, st)
		lba, err2 := x.evalClosurePure(less, []Value{b, a}, st)
		if err1 != nil || err2 != nil {
			x.u.Errorf("%s: sort-total: comparator not evaluated symbolically", x.prefix)
		} else {
			cond := And(Le(IntLit(0), a), Lt(a, n), Le(IntLit(0), b), Lt(b, n), Not(Eq(a, b)))
			x.obl("sort[total-on-distinct]", "sort", "the comparator decides the order of any two distinct elements (ties are not left to the sorting algorithm)", st,
				Term{fmt.Sprintf("(forall ((a!t Int) (b!t Int)) (=> %s (or %s %s)))", cond.S, lab.S, lba.S), SBool})
		}
	}
	st.SetHeap(hn, nh)
	// safety of the comparator for indices in range (it runs inside sort.Slice)
	if !x.pure {
		i := w.Fresh("less.i", SInt)
		j := w.Fresh("less.j", SInt)
		saved := x.curBlockReach
		guard := w.Fresh("r.less", SBool)
		x.u.AssumeRaw(Eq(guard, And(saved, Ge(i, IntLit(0)), Lt(i, n), Ge(j, IntLit(0)), Lt(j, n))))
		x.curBlockReach = guard
		s3 := st.Clone()
		func() {
			defer func() {
				if r := recover(); r != nil {
					if _, ok := r.(execAbort); ok {
						x.note("sort comparator body not executed for safety")
						return
					}
					panic(r)
				}
			}()
			x.static(site, less.Fn, less.Bindings, []Value{i, j}, s3)
		}()
		x.curBlockReach = saved
		x.curInstr = site
	}
	// sortedness: for a < b, !less(b, a) evaluated in the post state
	a := Term{"a!q", SInt}
	b := Term{"b!q", SInt}
	lt, err := x.evalClosurePure(less, []Value{b, a}, st)
	if err != nil {
		x.note(fmt.Sprintf("sort comparator at %s not evaluated symbolically (%v): only permutation assumed", x.instrPos(site), err))
		return nil
	}
	cond := And(Le(IntLit(0), a), Lt(a, b), Lt(b, n))
	x.assume(Term{fmt.Sprintf("(forall ((a!q Int) (b!q Int)) (=> %s (not %s)))", cond.S, lt.S), SBool})
	u.sortSites = append(u.sortSites, &SortSite{Pos: x.instrPos(site), Fn: x.fn, Less: less, Slice: sl, Elem: stype.Elem(), Stable: fn.Name() == "SliceStable", St: st.Clone(), Reach: x.curBlockReach, Prefix: x.prefix})
	return nil
}

type SortSite struct {
	Pos    token.Position
	Fn     *ssa.Function
	Less   *Closure
	Slice  Term
	Elem   types.Type
	Stable bool
	St     *State
	Reach  Term
	Prefix string
}

// evalClosurePure evaluates a loop-free closure to a term, without emitting
// obligations or assumptions.
func (x *Exec) evalClosurePure(c *Closure, args []Value, st *State) (res Term, err error) {
	defer func() {
		if r := recover(); r != nil {
			if ea, ok := r.(execAbort); ok {
				err = fmt.Errorf("%s", ea.msg)
				return
			}
			panic(r)
		}
	}()
	fn := c.Fn
	sub := &Exec{u: x.u, fn: fn, regs: map[ssa.Value]Value{}, depth: x.depth + 1, frame: x.frame, alloc0: x.alloc0,
		stack: append(append([]*ssa.Function(nil), x.stack...), x.fn), pure: true, cellable: x.cellable, freshBases: x.freshBases, prefix: x.prefix}
	for i, p := range fn.Params {
		sub.regs[p] = args[i]
	}
	for i, fv := range fn.FreeVars {
		sub.regs[fv] = c.Bindings[i]
	}
	s2 := st.Clone()
	s2.defers = nil
	s2.noName = true
	sub.entry = s2
	sub.run(s2, TTrue)
	if len(sub.rets) == 0 {
		return Term{}, fmt.Errorf("closure never returns")
	}
	t := x.term(sub.rets[len(sub.rets)-1].vals[0])
	for j := len(sub.rets) - 2; j >= 0; j-- {
		t = Ite(sub.rets[j].reach, x.term(sub.rets[j].vals[0]), t)
	}
	return t, nil
}

// unmarshalLike models decoders writing through an interface-wrapped pointer: the call may
// write the pointed-to object, the elements of slices held directly in it, and fresh memory.
func unmarshalLike(argIdx int) intrinsic {
	return func(x *Exec, site ssa.Instruction, fn *ssa.Function, args []Value, st *State) Value {
		u := x.u
		w := u.W
		c := site.(ssa.CallInstruction).Common()
		mi, ok := c.Args[argIdx].(*ssa.MakeInterface)
		if !ok {
			x.fail("%s: destination is not a direct pointer", fn)
		}
		if slt, isSl := mi.X.Type().Underlying().(*types.Slice); isSl {
			// the destination is a slice: its elements are overwritten
			sv := x.term(x.val(mi.X))
			hn, hs := x.heapOf(slt.Elem())
			u.usedAssumed[fn.String()+" (writes only the elements of the destination slice; result unconstrained)"] = true
			if x.frame != nil && !x.frame.any {
				p := w.Fresh("fp", SPtr)
				inr := And(Eq(PBase(p), PBase(SlPtr(sv))), Ge(PIdx(p), PIdx(SlPtr(sv))), Lt(PIdx(p), Add(PIdx(SlPtr(sv)), SlLen(sv))))
				x.obl("frame[decode into "+hn+"]", "frame", "decoded slice within modifies clause", st, Implies(inr, Or(Ge(PBase(p), x.alloc0), x.frame.Writable(hn, p))))
			}
			h := st.Heap(hn, hs)
			nh := w.Fresh(hn+"@read", hs)
			p := Term{"p!a", SPtr}
			inRange := And(Eq(PBase(p), PBase(SlPtr(sv))), Ge(PIdx(p), PIdx(SlPtr(sv))), Lt(PIdx(p), Add(PIdx(SlPtr(sv)), SlLen(sv))))
			x.assume(Term{fmt.Sprintf("(forall ((p!a Ptr)) (! (=> (not %s) (= (select %s p!a) (select %s p!a))) :pattern ((select %s p!a))))", inRange.S, nh.S, h.S, nh.S), SBool})
			st.SetHeap(hn, nh)
			var vals []Value
			res := fn.Signature.Results()
			for i := 0; i < res.Len(); i++ {
				vals = append(vals, w.Fresh("r."+fn.Name(), w.SortOf(res.At(i).Type())))
			}
			return resultValue(vals)
		}
		pt, ok := mi.X.Type().Underlying().(*types.Pointer)
		if !ok {
			x.fail("%s: destination is not a pointer", fn)
		}
		u.usedAssumed[fn.String()+" (writes only *dst, slices held directly in *dst, and fresh memory; result unconstrained)"] = true
		dv := x.val(mi.X)
		res := fn.Signature.Results()
		var vals []Value
		mkres := func() Value {
			for i := 0; i < res.Len(); i++ {
				r := w.Fresh("r."+fn.Name(), w.SortOf(res.At(i).Type()))
				vals = append(vals, r)
				// Unmarshal(data, &v): whether decoding succeeds is a function of the bytes handed in
				// (spec function decodes(data), uninterpreted) - the link between "the file holds a
				// decodable document" and "the load succeeds"
				if argIdx == 1 && i == res.Len()-1 && res.At(i).Type().String() == "error" && len(args) > 0 {
					if dt, ok := args[0].(Term); ok {
						x.assume(Eq(Eq(r, Term{"iface.nil", SIface}), w.UF("spec.decodes", SBool, dt, w.StrLit(types.TypeString(pt.Elem(), func(p *types.Package) string { return p.Name() })))))
					}
				}
			}
			return resultValue(vals)
		}
		if l, ok := dv.(*Loc); ok && l.Kind == "cell" {
			nv := w.Fresh("decoded."+cellName(l.Key), w.SortOf(l.elemType()))
			// new pointers inside are valid
			allocBefore := st.alloc
			st.alloc = u.W.Fresh("alloc", SInt)
			x.assume(Ge(st.alloc, allocBefore))
			oldv := x.load(l, st)
			x.store(l, nv, st)
			x.assumeTypeInv(nv, l.elemType(), x.curBlockReach, st)
			if _, isSl := l.elemType().Underlying().(*types.Slice); isSl {
				// decoding into a nil slice allocates: the result is fresh memory
				if ot, ok := oldv.(Term); ok {
					x.assume(Implies(Eq(SlCap(ot), IntLit(0)), Or(Ge(PBase(SlPtr(nv)), allocBefore), Eq(SlCap(nv), IntLit(0)))))
				}
			}
			return mkres()
		}
		ptr := x.term(dv)
		T := pt.Elem()
		type rng struct {
			heap string
			sl   Term
		}
		var ranges []rng
		if stt := structOf(T); stt != nil {
			old := Select(st.Heap(heapName(T), ArraySort(SPtr, w.SortOf(T))), ptr)
			for i := 0; i < stt.NumFields(); i++ {
				if sl, ok := stt.Field(i).Type().Underlying().(*types.Slice); ok {
					ranges = append(ranges, rng{heapName(sl.Elem()), w.FieldGet(T, old, i)})
				}
			}
		}
		hT := heapName(T)
		writable := func(heap string, p Term) Term {
			var alts []Term
			if heap == hT {
				alts = append(alts, Eq(p, ptr))
			}
			for _, r := range ranges {
				if r.heap == heap {
					alts = append(alts, And(Eq(PBase(p), PBase(SlPtr(r.sl))), Ge(PIdx(p), PIdx(SlPtr(r.sl))), Lt(PIdx(p), Add(PIdx(SlPtr(r.sl)), SlCap(r.sl)))))
				}
			}
			return Or(alts...)
		}
		if x.frame != nil && !x.frame.any {
			x.obl("frame[decode into "+hT+"]", "frame", "decoded object within modifies clause", st, Or(Ge(PBase(ptr), x.alloc0), x.frame.Writable(hT, ptr)))
			for _, r := range ranges {
				p := w.Fresh("fp", SPtr)
				x.obl("frame[decode into "+r.heap+"]", "frame", "slice reused by the decoder within modifies clause", st,
					Implies(writable(r.heap, p), Or(Ge(PBase(p), x.alloc0), x.frame.Writable(r.heap, p))))
			}
		}
		pre := st.Clone()
		allocBefore := st.alloc
		st.alloc = w.Fresh("alloc", SInt)
		x.assume(Ge(st.alloc, allocBefore))
		st.heaps = map[string]Term{}
		aa := st.alloc
		st.gen = &Gen{kind: "havoc", parent: pre, guard: x.curBlockReach, tag: "dec", allocBefore: allocBefore, writable: writable, allocAfter: &aa}
		if _, isSl := T.Underlying().(*types.Slice); isSl {
			// decoding into a nil slice allocates: the result is fresh memory
			hn, hs := x.heapOf(T)
			oldv := Select(pre.Heap(hn, hs), ptr)
			nv := Select(st.Heap(hn, hs), ptr)
			x.assume(Implies(Eq(SlCap(oldv), IntLit(0)), Or(Ge(PBase(SlPtr(nv)), allocBefore), Eq(SlCap(nv), IntLit(0)))))
		}
		return mkres()
	}
}

// strings.Map(f, s) with a closure literal that captures nothing: a deterministic function of
// s, named after the closure so that contracts can refer to it.
func stringsMap(x *Exec, site ssa.Instruction, fn *ssa.Function, args []Value, st *State) Value {
	w := x.u.W
	var name string
	switch f := args[0].(type) {
	case *Closure:
		if len(f.Bindings) > 0 {
			x.fail("strings.Map with a capturing closure")
		}
		name = f.Fn.Name()
	case *FuncRef:
		name = f.Fn.Name()
	default:
		x.fail("strings.Map with an unknown function value")
	}
	x.u.usedPureUF["strings.Map$"+name] = true
	return w.UF("strings.Map$"+name, SStr, x.term(args[1]))
}

// dispatchCall: a call through a function value held in memory. The value is one of the
// closures registered in this unit (those that were converted to first-class values) or
// something unknown; each case is executed under its own path condition and the results merged.
func (x *Exec) dispatchCall(site ssa.Instruction, c *ssa.CallCommon, fv Term, args []Value, st *State) Value {
	u := x.u
	sig := c.Signature()
	var cands []*regClosure
	for _, r := range u.closures {
		rs := r.c.Fn.Signature
		if rs.Params().Len()-0 == sig.Params().Len() && rs.Results().Len() == sig.Results().Len() || len(r.c.Bindings) > 0 && rs.Results().Len() == sig.Results().Len() {
			if types.Identical(types.NewSignatureType(nil, nil, nil, rs.Params(), rs.Results(), rs.Variadic()), types.NewSignatureType(nil, nil, nil, sig.Params(), sig.Results(), sig.Variadic())) {
				cands = append(cands, r)
			}
		}
	}
	if len(cands) == 0 || x.pure {
		x.note("call through unknown function value havocs everything")
		return x.havocCall(site, sig, "fnvalue", args, nil, st, true)
	}
	reach := x.curBlockReach
	var edges []mergeEdge
	var results [][]Value
	none := []Term{}
	for _, r := range cands {
		cond := Eq(fv, r.name)
		none = append(none, Not(cond))
		s2 := st.Clone()
		x.curBlockReach = And(reach, cond)
		if len(x.curBlockReach.S) > 40 {
			rb := u.W.Fresh("r.dispatch", SBool)
			u.AssumeRaw(Eq(rb, x.curBlockReach))
			x.curBlockReach = rb
		}
		v := x.static(site, r.c.Fn, r.c.Bindings, args, s2)
		edges = append(edges, mergeEdge{x.curBlockReach, s2})
		results = append(results, flattenResult(v))
	}
	// unknown callee
	x.curBlockReach = And(append([]Term{reach}, none...)...)
	if len(x.curBlockReach.S) > 40 {
		rb := u.W.Fresh("r.dispatch", SBool)
		u.AssumeRaw(Eq(rb, x.curBlockReach))
		x.curBlockReach = rb
	}
	s3 := st.Clone()
	v := x.havocCall(site, sig, "fnvalue", args, nil, s3, true)
	edges = append(edges, mergeEdge{x.curBlockReach, s3})
	results = append(results, flattenResult(v))
	x.curBlockReach = reach
	x.curInstr = site
	merged, _ := x.merge(edges, "dispatch")
	n := sig.Results().Len()
	vals := make([]Value, n)
	for i := 0; i < n; i++ {
		sym := u.W.Fresh("r.dispatch", u.W.SortOf(sig.Results().At(i).Type()))
		for j, e := range edges {
			u.AssumeRaw(Implies(e.cond, Eq(sym, x.term(results[j][i]))))
		}
		vals[i] = sym
	}
	*st = *merged
	return resultValue(vals)
}

func flattenResult(v Value) []Value {
	switch t := v.(type) {
	case nil:
		return nil
	case Tuple:
		return []Value(t)
	}
	return []Value{v}
}
