package main

import (
	"go/token"
	"encoding/json"
	"golang.org/x/tools/go/ssa"
	"os/exec"
	"flag"
	"fmt"
	"os"
	"path/filepath"
	"regexp"
	"sort"
	"strings"
	"time"
)

// PropSpec: /verif/props/<id>.json
type PropSpec struct {
	Property    string     `json:"property"`
	Level       string     `json:"level"`
	Units       []UnitSpec `json:"units"`
	Static      []StaticSpec `json:"static"`
	Lemmas      []LemmaSpec `json:"lemmas"`
	Bounded     []BoundedSpec `json:"bounded"`
	Assumptions []string   `json:"assumptions"`
	Explanation string     `json:"explanation"`
	ThoroughMutants []string `json:"thorough_mutants"`
	SweepRoots   []string `json:"sweep_roots"`   // zero-annotation safety sweep: every function in the call trees of these roots is a unit
	SweepExclude []string `json:"sweep_exclude"` // substrings of function names left out (with the reason in assumptions)
	SweepOnly    []string `json:"sweep_only"`    // obligation-name substrings kept for swept units (default: safety, frame, requires, invariant, variant, lock)
	// A call to a library function that has neither a contract nor an intrinsic model may write
	// anything its arguments reach; the frame obligation this generates usually fails. That is
	// "the verifier has no model", not "the code is wrong": such a failure is reported as
	// UNDECIDED (exit 2) - except for callees whose name contains one of these substrings, where
	// leaving the modelled API is itself what the property forbids (C09: file-system calls).
	UnmodelledIsViolation []string `json:"unmodelled_is_violation"`
}

type UnitSpec struct {
	Func          string   `json:"func"`
	Unconstrained bool     `json:"unconstrained"`
	SafetyOnly    bool     `json:"safety_only"`
	Exclude       []string `json:"exclude"`  // substrings of obligation names not counted for this property
	Only          []string `json:"only"`     // if set: only obligations containing one of these
	UnreachableOK []string `json:"unreachable_ok"`
	Also          bool     `json:"also"` // verify against the function's second contract
	swept         bool
}

type LemmaSpec struct {
	Pkg   string   `json:"pkg"`
	Names []string `json:"names"`
}

type StaticSpec struct {
	Kind string            `json:"kind"`
	Args map[string]string `json:"args"`
	List []string          `json:"list"`
}

type BoundedSpec struct {
	Name   string `json:"name"`
	Cmd    string `json:"cmd"`     // {repo} is replaced by the repository directory
	Tier   string `json:"tier"`    // "", "thorough"
	OnFail string `json:"on_fail"` // "engine-error" (a falsified ASSUMPTION) or "violation" (the real code against its contract)
}

type boundedReport struct {
	Name      string   `json:"name"`
	Bound     string   `json:"bound"`
	Cases     int      `json:"cases"`
	Falsified []string `json:"falsified"`
	Checked   []string `json:"checked"`
	Label     string   `json:"label"`
	Seconds   float64  `json:"seconds"`
}

type KnownFindings struct {
	Findings []Finding `json:"findings"`
	Fixed    []string  `json:"fixed"`
}

type Finding struct {
	Property   string      `json:"property"`
	Obligation string      `json:"obligation"`
	What       string      `json:"what"`
	Witness    interface{} `json:"witness"`
}

type oblReport struct {
	Name    string      `json:"name"`
	Kind    string      `json:"kind"`
	Clause  string      `json:"clause"`
	Pos     string      `json:"pos"`
	Verdict string      `json:"verdict"`
	Solver  string      `json:"solver"`
	Seconds float64     `json:"seconds"`
	Bytes   int         `json:"smt_bytes"`
	Runs    []SolverRun `json:"runs,omitempty"`
}

var verifDir = "/verif"

func cmdCheck(args []string) {
	fs := flag.NewFlagSet("check", flag.ExitOnError)
	repo := fs.String("repo", "/repo", "repository")
	tier := fs.String("tier", "quick", "quick|thorough")
	keep := fs.String("keep", "", "keep SMT queries in this directory")
	noEvidence := fs.Bool("no-evidence", false, "do not write evidence (selftest)")
	fs.Parse(args)
	if fs.NArg() < 1 {
		fmt.Fprintln(os.Stderr, "usage: govc check [-tier quick|thorough] Cxx")
		os.Exit(2)
	}
	id := fs.Arg(0)
	if fs.NArg() > 1 {
		*tier = fs.Arg(1)
	}
	if d := os.Getenv("VERIF_DIR"); d != "" {
		verifDir = d
	}
	os.Exit(runCheck(id, *tier, *repo, *keep, !*noEvidence))
}

func engineError(id string, f string, a ...interface{}) int {
	fmt.Printf("ENGINE-ERROR property=%s %s\n", id, fmt.Sprintf(f, a...))
	return 2
}

func runCheck(id, tier, repo, keep string, writeEvidence bool) int {
	start := time.Now()
	seed := 0
	fmt.Sscanf(os.Getenv("VERIF_SEED"), "%d", &seed)
	var ps PropSpec
	b, err := os.ReadFile(filepath.Join(verifDir, "props", id+".json"))
	if err != nil {
		return engineError(id, "no property spec: %v", err)
	}
	if err := json.Unmarshal(b, &ps); err != nil {
		return engineError(id, "bad property spec: %v", err)
	}
	var kf KnownFindings
	if b, err := os.ReadFile(filepath.Join(verifDir, "known_findings.json")); err == nil {
		if err := json.Unmarshal(b, &kf); err != nil {
			return engineError(id, "bad known_findings.json: %v", err)
		}
	}
	known := map[string]Finding{}
	for _, f := range kf.Findings {
		if f.Property == id {
			known[f.Obligation] = f
		}
	}
	eng, err := LoadEngine(repo)
	if err != nil {
		return engineError(id, "%v", err)
	}
	loadS := time.Since(start).Seconds()
	dir := keep
	if dir == "" {
		dir, _ = os.MkdirTemp("/var/tmp", "govc-"+id+"-")
		defer os.RemoveAll(dir)
	} else {
		os.MkdirAll(dir, 0o755)
	}
	// obligations that hold finish when the first solver answers (most in well under a second);
	// the timeout only bounds the ones that fail. 20 s leaves a wide margin over the slowest
	// passing obligation (about 6 s, printed as SLOW) on a loaded machine.
	timeout := 20
	if tier == "thorough" {
		timeout = 90
	}
	var all []*Obligation
	var units []*Unit
	sweptUnits := map[*Unit]bool{}
	var engErrs []string
	funcsUnderContract := []string{}
	assumedUsed := map[string]bool{}
	pureUsed := map[string]bool{}
	havocUsed := map[string]bool{}
	inlinedUsed := map[string]bool{}
	notes := map[string]bool{}
	// expand the sweep
	if len(ps.SweepRoots) > 0 {
		tree := map[*ssa.Function]bool{}
		for _, r := range ps.SweepRoots {
			fn, _, err := eng.LookupFunc(r)
			if err != nil {
				engErrs = append(engErrs, err.Error())
				continue
			}
			eng.callTree(fn, tree)
		}
		listed := map[string]bool{}
		for _, us := range ps.Units {
			if fn, _, err := eng.LookupFunc(us.Func); err == nil {
				listed[fn.String()] = true
			}
		}
		var names []string
		byName := map[string]*ssa.Function{}
		for fn := range tree {
			if listed[fn.String()] || fn.Synthetic != "" {
				continue
			}
			if fn.Parent() != nil && len(fn.FreeVars) > 0 {
				continue // closures over locals are executed in the context of their parent (inlined / at sort sites)
			}
			skip := false
			for _, ex := range ps.SweepExclude {
				if strings.Contains(fn.String(), ex) {
					skip = true
				}
			}
			if skip {
				continue
			}
			pk, key := fnKey(fn)
			n := pk + "::" + key
			names = append(names, n)
			byName[n] = fn
		}
		sort.Strings(names)
		for _, n := range names {
			ps.Units = append(ps.Units, UnitSpec{Func: n, swept: true})
		}
	}
	for _, us := range ps.Units {
		fn, full, err := eng.LookupFunc(us.Func)
		if err != nil {
			engErrs = append(engErrs, err.Error())
			continue
		}
		u := eng.VerifyFunction(fn, VerifyOpts{IgnoreRequires: us.Unconstrained, SafetyOnly: us.SafetyOnly, Also: us.Also})
		units = append(units, u)
		if us.swept {
			sweptUnits[u] = true
		}
		funcsUnderContract = append(funcsUnderContract, strings.TrimPrefix(full, modulePath+"/internal/"))
		for _, e := range u.errs {
			if clauseEvalErr.MatchString(e) {
				// a clause that no longer type-checks against the code (a local changed its type, a
				// field disappeared): contract drift in this function, not an engine failure
				eng.driftMu.Lock()
				if _, seen := eng.drift[u.Name]; !seen {
					eng.drift[u.Name] = "a clause no longer fits the code: " + trunc(e, 300)
				}
				eng.driftMu.Unlock()
				continue
			}
			engErrs = append(engErrs, u.Name+": "+e)
		}
		for k := range u.usedAssumed {
			assumedUsed[k] = true
		}
		for k := range u.usedPureUF {
			pureUsed[k] = true
		}
		for k := range u.havocCalls {
			havocUsed[k] = true
		}
		for k := range u.inlined {
			inlinedUsed[k] = true
		}
		for _, n := range u.notes {
			notes[n] = true
		}
		// smoke: every return site reachable under the assumptions
		n := 0
		for _, o := range u.obls {
			if !oblSelected(o, id, us) {
				continue
			}
			if us.swept && (o.Kind == "ensures" || o.ExpectSat) {
				continue // swept units contribute their safety obligations; their functional clauses belong to other properties
			}
			if o.ExpectSat {
				skip := false
				for _, uo := range us.UnreachableOK {
					if strings.HasSuffix(o.Name, uo) {
						skip = true
					}
				}
				if skip {
					continue // declared unreachable: its unreachability is what the ensures at that site prove
				}
			}
			all = append(all, o)
			n++
		}
		if n == 0 && len(u.errs) == 0 && !us.swept && len(us.Only) == 0 {
			engErrs = append(engErrs, fmt.Sprintf("%s: no obligations generated", u.Name))
		}
	}
	for _, ls := range ps.Lemmas {
		pk := ls.Pkg
		if !strings.Contains(pk, "/") {
			pk = modulePath + "/internal/" + pk
		}
		u := eng.VerifyLemmas(pk, ls.Names)
		units = append(units, u)
		for _, e := range u.errs {
			engErrs = append(engErrs, u.Name+": "+e)
		}
		for k := range u.usedAssumed {
			assumedUsed[k] = true
		}
		for k := range u.usedPureUF {
			pureUsed[k] = true
		}
		all = append(all, u.obls...)
	}
	// static (dataflow / frame) obligations
	statics, serrs := runStatics(eng, id, ps.Static)
	engErrs = append(engErrs, serrs...)
	// a unit, sweep root or static obligation that names a function (or parameter) the code no
	// longer has is contract drift: reported, the rest of the check still runs
	{
		var fatal []string
		for _, e := range engErrs {
			if missingFuncErr.MatchString(e) {
				eng.driftMu.Lock()
				eng.drift[e] = "named by the check's unit list or a static obligation"
				eng.driftMu.Unlock()
				continue
			}
			fatal = append(fatal, e)
		}
		engErrs = fatal
	}
	earlyErrs := engErrs
	engErrs = nil
	// bounded stand-ins and bounded validation of assumptions (never counted as discharged)
	var boundedReps []boundedReport
	boundedViolations := 0
	for _, bs := range ps.Bounded {
		if bs.Tier == "thorough" && tier != "thorough" {
			continue
		}
		t0 := time.Now()
		cmdline := strings.ReplaceAll(bs.Cmd, "{repo}", repo)
		c := exec.Command("bash", "-c", cmdline)
		c.Dir = verifDir
		c.Env = append(os.Environ(), "AXCHECK_TIER="+tier) // thorough: the suites explore several times as many cases
		outB, err := c.Output()
		var br boundedReport
		lines := strings.Split(strings.TrimSpace(string(outB)), "\n")
		if jerr := json.Unmarshal([]byte(lines[len(lines)-1]), &br); jerr != nil {
			engErrs = append(engErrs, fmt.Sprintf("bounded check %s did not produce a report: %v %s", bs.Name, err, trunc(string(outB), 300)))
			continue
		}
		br.Label = "bounded (not counted as discharged)"
		br.Seconds = round3(time.Since(t0).Seconds())
		boundedReps = append(boundedReps, br)
		if len(br.Falsified) > 0 {
			if bs.OnFail == "violation" {
				for _, f := range br.Falsified {
					name := "bounded " + bs.Name + " / " + strings.SplitN(f, " ", 2)[0]
					if kfnd, ok := known[name]; ok {
						fmt.Printf("KNOWN-FINDING: property=%s %s [%s]\n", id, kfnd.What, name)
						continue
					}
					boundedViolations++
					path := writeStaticReplay(id, &StaticResult{Name: name, Kind: "bounded", Text: br.Bound, Detail: f})
					fmt.Printf("VIOLATION property=%s replay=%s obligation=%q bounded-check-on-real-code %s\n", id, path, name, f)
				}
			} else {
				engErrs = append(engErrs, fmt.Sprintf("assumed axiom falsified by bounded validation (%s): %s", bs.Name, strings.Join(br.Falsified, "; ")))
			}
		}
	}
	engErrs = append(earlyErrs, engErrs...)
	if len(engErrs) > 0 {
		sort.Strings(engErrs)
		for _, e := range engErrs {
			fmt.Printf("ENGINE-ERROR property=%s %s\n", id, e)
		}
		if boundedViolations > 0 {
			return 1 // a concrete failing input on the real code is a verdict whatever else went wrong
		}
		return 2
	}
	// known findings get a short timeout: they only have to keep failing
	var normal, expected []*Obligation
	for _, o := range all {
		if _, ok := known[o.Name]; ok {
			expected = append(expected, o)
		} else {
			normal = append(normal, o)
		}
	}
	eng.Discharge(normal, dir, timeout, tier == "thorough", nil)
	eng.Discharge(expected, dir, 4, false, nil)

	// verdicts
	violations := 0
	discharged := 0
	knownHit := 0
	total := 0
	perBackend := map[string]int{}
	solverSeconds := 0.0
	var samples []oblReport
	var failed []oblReport
	var slow []string
	exit := 0
	undecided := 0
	unmodelled := 0
	unitFailed := map[*Unit]bool{}
	for _, o := range all {
		if !o.ExpectSat && !o.Holds() {
			unitFailed[o.Unit] = true
		}
	}
	for _, o := range all {
		if o.ExpectSat {
			if !o.Holds() && unitFailed[o.Unit] {
				// a failed obligation of the same unit was assumed after being reported: the
				// inconsistency is explained by that failure
				continue
			}
			if !o.Holds() {
				fmt.Printf("ENGINE-ERROR property=%s vacuous: %s is unsatisfiable (%s)\n", id, o.Name, o.Text)
				exit = 2
			}
			continue
		}
		total++
		for _, r := range o.Res.All {
			solverSeconds += r.Seconds
		}
		rep := oblReport{Name: o.Name, Kind: o.Kind, Clause: o.Text, Pos: shortPos(o.Pos.String()), Verdict: o.Res.Verdict, Solver: o.Res.Solver, Seconds: round3(o.Res.Seconds), Bytes: o.QuerySize, Runs: o.Res.All}
		if o.Res.Verdict == "disagree" {
			fmt.Printf("ENGINE-ERROR property=%s solvers disagree on %s\n", id, o.Name)
			exit = 2
			continue
		}
		if o.Holds() {
			discharged++
			perBackend[o.Res.Solver]++
			if o.Res.Seconds > 2.5 {
				slow = append(slow, fmt.Sprintf("%.1fs %s", o.Res.Seconds, o.Name))
			}
			if len(samples) < 6 && (o.Kind == "ensures" || o.Kind == "invariant" || len(samples) < 2) {
				rep.Runs = nil
				samples = append(samples, rep)
			}
			continue
		}
		failed = append(failed, rep)
		if f, ok := known[o.Name]; ok {
			knownHit++
			fmt.Printf("KNOWN-FINDING: property=%s %s [%s]\n", id, f.What, o.Name)
			continue
		}
		replay := writeReplay(eng, id, o, dir)
		if !replay.Confirmed && sweptUnits[o.Unit] && coveredInContext(eng, o, all, units) {
			// a swept helper is checked for arbitrary arguments; this obligation needs a
			// precondition the helper does not state, but the helper is unexported, has no contract,
			// every one of its callers is verified in this check with the helper's body inlined, and
			// there the same obligation holds: no reachable input fails it
			fmt.Printf("NOTE: property=%s %s fails for arbitrary arguments but holds at every call site (unexported helper, inlined into all its callers)\n", id, o.Name)
			total--
			continue
		}
		if !replay.Confirmed && o.Kind == "frame-unmodelled" {
			strict := false
			for _, sub := range ps.UnmodelledIsViolation {
				if strings.Contains(o.Name, "frame[call "+sub) {
					strict = true
				}
			}
			if !strict {
				fmt.Printf("UNDECIDED property=%s obligation=%q verdict=%s (call to a library function the verifier has no contract for: its effect is unknown, nothing is concluded)\n", id, o.Name, o.Res.Verdict)
				undecided++
				unmodelled++
				continue
			}
		}
		if !replay.Confirmed && driftedObligation(eng, o.Name) {
			// part of this function's contract no longer resolves against the code (a renamed
			// local, a moved loop): what is left of it is too weak to carry the proof, and a failed
			// proof without a failing input decides nothing. Reported as undecided, never as a violation.
			fmt.Printf("UNDECIDED property=%s obligation=%q verdict=%s (contract drift in this function: see CONTRACT-DRIFT below)\n", id, o.Name, o.Res.Verdict)
			undecided++
			continue
		}
		violations++
		suffix := ""
		if !replay.Confirmed {
			suffix = " no-failing-input-found"
		}
		fmt.Printf("VIOLATION property=%s replay=%s obligation=%q verdict=%s%s\n", id, replay.Path, o.Name, o.Res.Verdict, suffix)
	}
	for _, s := range statics {
		total++
		rep := oblReport{Name: s.Name, Kind: "static:" + s.Kind, Clause: s.Text, Verdict: "holds", Solver: "dataflow"}
		if s.OK {
			discharged++
			perBackend["dataflow"]++
			if len(samples) < 8 {
				samples = append(samples, rep)
			}
			continue
		}
		rep.Verdict = "fails: " + s.Detail
		failed = append(failed, rep)
		if f, ok := known[s.Name]; ok {
			knownHit++
			fmt.Printf("KNOWN-FINDING: property=%s %s [%s]\n", id, f.What, s.Name)
			continue
		}
		violations++
		path := writeStaticReplay(id, s)
		fmt.Printf("VIOLATION property=%s replay=%s obligation=%q detail=%q no-failing-input-found\n", id, path, s.Name, s.Detail)
	}
	// known findings that no longer fail: say so (not an error)
	for name, f := range known {
		found := false
		for _, r := range failed {
			if r.Name == name {
				found = true
			}
		}
		if !found {
			fmt.Printf("NOTE: property=%s recorded finding no longer fails: %s [%s]\n", id, f.What, name)
		}
	}
	if total == 0 {
		return engineError(id, "zero obligations")
	}
	// contract drift: contracts that no longer fit their functions were ignored (the functions
	// inlined / verified without them). Never silent: without a violation the verdict is "don't know".
	for _, k := range sortedStrKeys(eng.aliased) {
		fmt.Printf("NOTE: property=%s %s: contract identifiers re-bound to renamed parameters / locals (%s); the clauses were proved with the new names\n", id, k, eng.aliased[k])
	}
	if len(eng.aliased) > 0 && undecided > 0 && len(eng.drift) == 0 {
		eng.drift["renamed identifiers"] = "obligations failed in a function whose contract was re-bound to renamed locals (see NOTE lines): the guess may be wrong"
	}
	if len(eng.drift) > 0 {
		for _, k := range sortedStrKeys(eng.drift) {
			fmt.Printf("CONTRACT-DRIFT property=%s %s: %s\n", id, k, eng.drift[k])
		}
		onlyAids := true
		for k := range eng.drift {
			if !eng.aidDrift[k] {
				onlyAids = false
			}
		}
		if onlyAids && undecided == 0 && violations+boundedViolations == 0 && exit == 0 {
			// only unnamed loop invariants (proof aids) were dropped and every obligation - every
			// clause of the property among them - is discharged without them: nothing is undecided
			fmt.Printf("NOTE: property=%s the dropped invariants were proof aids; all %d obligations are discharged without them\n", id, total)
		} else if violations+boundedViolations == 0 && exit == 0 {
			fmt.Printf("ENGINE-ERROR property=%s contract drift and no violation found (%d obligations undecided): the contracts must be brought in line with the code\n", id, undecided)
			exit = 2
		}
	}
	if unmodelled > 0 && violations+boundedViolations == 0 && exit == 0 {
		fmt.Printf("ENGINE-ERROR property=%s %d obligation(s) undecided because of unmodelled library calls and no violation found: add a contract for the callee to the prelude\n", id, unmodelled)
		exit = 2
	}
	violations += boundedViolations
	if violations > 0 {
		// a violation was found: that is the verdict, whatever else went wrong on the way (a
		// vacuity guard tripped by the same change, contract drift elsewhere)
		exit = 1
	}
	if writeEvidence {
		level := ps.Level
		if level == "" {
			level = "proof"
		}
		trusted := []string{"go/packages + go/types + go/ssa (x/tools v0.29.0) produce SSA faithful to the compiler", "govc SSA-to-SMT translation (/verif/govc)", "z3 4.8.12 / z3 5.1.0 / cvc5 1.0 unsat answers"}
		assumptions := append([]string(nil), ps.Assumptions...)
		assumptions = append(assumptions, "float64 arithmetic treated as exact real arithmetic (no rounding, NaN or Inf)", "64-bit int / uint arithmetic and byte / rune arithmetic are mathematical; their overflow is checked only where a contract opts in (opt overflow). Arithmetic on every other integer type narrower than 64 bits is an obligation everywhere (safety[narrow-overflow])")
		for k := range assumedUsed {
			assumptions = append(assumptions, "assumed contract: "+k)
		}
		for k := range pureUsed {
			assumptions = append(assumptions, "uninterpreted deterministic function: "+k)
		}
		for k := range havocUsed {
			assumptions = append(assumptions, "call without contract treated as havoc (result and reachable heap unconstrained): "+k)
		}
		for k := range notes {
			assumptions = append(assumptions, "note: "+k)
		}
		sort.Strings(assumptions)
		inl := keys(inlinedUsed)
		cov := map[string]interface{}{
			"obligations":              total - knownHit,
			"discharged":               discharged,
			"obligations_generated":    total,
			"obligations_failed_unlisted": violations,
			"known_findings":           knownHit,
			"checker_cmd":              fmt.Sprintf("/verif/bin/govc check -tier %s %s  (VCs from go/ssa of /repo's working tree; z3 5.1.0 and 4.8.12 in default, e-matching-only and no-auto-config configurations and cvc5 1.0 raced per obligation, %ds timeout)", tier, id, timeout),
			"trusted_base":             trusted,
			"functions_under_contract": funcsUnderContract,
			"functions_inlined":        inl,
			"per_backend":              perBackend,
			"solver_seconds":           round3(solverSeconds),
			"samples":                  samples,
			"failed":                   failed,
			"load_seconds":             round3(loadS),
			"contract_files":           relFiles(eng.contractFiles),
			"assume_count":             eng.cs.Assumes,
			"bounded":                  boundedReps,
			"slow_obligations":         slow,
		}
		if ps.Explanation != "" {
			cov["explanation"] = ps.Explanation
		}
		if level != "proof" {
			// generic keys required by the schema for non-proof levels
			if _, ok := cov["explanation"]; !ok {
				cov["explanation"] = "see DESIGN.md"
			}
		}
		ev := map[string]interface{}{
			"property_id": id, "tier": tier, "seed": seed, "level": level, "coverage": cov,
			"assumptions": assumptions, "wall_s": round3(time.Since(start).Seconds()), "violations": violations,
		}
		os.MkdirAll(filepath.Join(verifDir, "evidence"), 0o755)
		eb, _ := json.MarshalIndent(ev, "", " ")
		if err := os.WriteFile(filepath.Join(verifDir, "evidence", id+".json"), eb, 0o644); err != nil {
			return engineError(id, "cannot write evidence: %v", err)
		}
	}
	for _, sl := range slow {
		fmt.Printf("SLOW: property=%s %s\n", id, sl)
	}
	fmt.Printf("property=%s tier=%s obligations=%d discharged=%d known-findings=%d violations=%d wall=%.1fs\n", id, tier, total, discharged, knownHit, violations, time.Since(start).Seconds())
	return exit
}

func keys(m map[string]bool) []string {
	var ks []string
	for k := range m {
		ks = append(ks, k)
	}
	sort.Strings(ks)
	return ks
}

func relFiles(fs []string) []string {
	var out []string
	for _, f := range fs {
		out = append(out, strings.TrimPrefix(f, "/repo/"))
	}
	sort.Strings(out)
	return out
}

// driftedObligation: does the obligation belong to a function whose contract drifted?
func driftedObligation(eng *Engine, name string) bool {
	eng.driftMu.Lock()
	defer eng.driftMu.Unlock()
	keys := map[string]bool{}
	for k := range eng.drift {
		keys[k] = true
	}
	for k := range eng.aliased {
		keys[k] = true
	}
	for k := range keys {
		fn := k
		if i := strings.Index(fn, " / "); i >= 0 {
			fn = fn[:i]
		}
		if j := strings.LastIndex(fn, " > "); j >= 0 {
			fn = fn[j+3:]
		}
		if strings.Contains(name, fn+" / ") {
			return true
		}
	}
	return false
}

func round3(f float64) float64 { return float64(int(f*1000+0.5)) / 1000 }

func shortPos(s string) string { return strings.TrimPrefix(s, "/repo/") }

var otherTag = regexp.MustCompile(`\[(C[0-9]{2})\.`)

var clauseEvalErr = regexp.MustCompile(`(invariant|requires|ensures|hint|defines|proves|decreases) "`)

var missingFuncErr = regexp.MustCompile(`^function ".*" not found$|has no parameter `)

// oblSelected: does obligation o of a unit listed under property id count for it?
func oblSelected(o *Obligation, id string, us UnitSpec) bool {
	for _, ex := range us.Exclude {
		if strings.Contains(o.Name, ex) {
			return false
		}
	}
	if len(us.Only) > 0 {
		ok := false
		for _, s := range us.Only {
			if strings.Contains(o.Name, s) {
				ok = true
			}
		}
		if !ok {
			return false
		}
	}
	if m := otherTag.FindStringSubmatch(o.Name); m != nil && m[1] != id {
		// a clause tagged for another property
		return strings.Contains(o.Name, "["+id+".") || strings.Contains(o.Name, "+"+id+".")
	}
	return true
}

// ---------------------------------------------------------------------------
// Replay files

type ReplayInfo struct {
	Path      string
	Confirmed bool
}

func writeReplay(eng *Engine, id string, o *Obligation, dir string) ReplayInfo {
	rdir := filepath.Join(verifDir, "replays", id)
	os.MkdirAll(rdir, 0o755)
	slug := slugify(o.Name)
	path := filepath.Join(rdir, slug+".json")
	// counter-model: rerun without quantified assumptions to obtain candidate inputs
	model := o.Model
	modelNote := ""
	if len(model) == 0 {
		model = candidateModel(o, dir)
		if len(model) > 0 {
			modelNote = "candidate model from the query with quantified assumptions dropped (may be spurious)"
		}
	}
	confirmed, replayOut := tryReplay(eng, id, o, model)
	q := o.Query()
	qpath := filepath.Join(rdir, slug+".smt2")
	os.WriteFile(qpath, []byte(q), 0o644)
	doc := map[string]interface{}{
		"property":   id,
		"obligation": o.Name,
		"kind":       o.Kind,
		"clause":     o.Text,
		"function":   o.Func,
		"position":   shortPos(o.Pos.String()),
		"verdict":    o.Res.Verdict,
		"solvers":    o.Res.All,
		"smt_query":  qpath,
		"model":      model,
		"model_note": modelNote,
		"replay":     replayOut,
		"confirmed_on_real_code": confirmed,
	}
	b, _ := json.MarshalIndent(doc, "", " ")
	os.WriteFile(path, b, 0o644)
	return ReplayInfo{Path: path, Confirmed: confirmed}
}

func slugify(s string) string {
	var b strings.Builder
	for _, c := range s {
		switch {
		case c >= 'a' && c <= 'z', c >= 'A' && c <= 'Z', c >= '0' && c <= '9', c == '.', c == '-':
			b.WriteRune(c)
		default:
			b.WriteByte('_')
		}
	}
	r := b.String()
	for strings.Contains(r, "__") {
		r = strings.ReplaceAll(r, "__", "_")
	}
	if len(r) > 150 {
		r = r[:150]
	}
	return strings.Trim(r, "_")
}

func candidateModel(o *Obligation, dir string) map[string]string {
	if len(o.Unit.inputs) == 0 {
		return nil
	}
	q := o.Query()
	var b strings.Builder
	for _, line := range strings.Split(q, "\n") {
		if strings.HasPrefix(line, "(assert ") && (strings.Contains(line, "(forall ") || strings.Contains(line, "(exists ")) && !strings.HasPrefix(line, "(assert (not ") {
			continue
		}
		b.WriteString(line)
		b.WriteByte('\n')
	}
	return GetModel(dir, "cand-"+slugify(o.Name), b.String(), o.Unit.inputs, "z3-new", 5)
}

func writeStaticReplay(id string, s *StaticResult) string {
	rdir := filepath.Join(verifDir, "replays", id)
	os.MkdirAll(rdir, 0o755)
	path := filepath.Join(rdir, slugify(s.Name)+".json")
	doc := map[string]interface{}{"property": id, "obligation": s.Name, "kind": "static:" + s.Kind, "clause": s.Text, "detail": s.Detail, "confirmed_on_real_code": false}
	b, _ := json.MarshalIndent(doc, "", " ")
	os.WriteFile(path, b, 0o644)
	return path
}

func sortedStrKeys(m map[string]string) []string {
	var ks []string
	for k := range m {
		ks = append(ks, k)
	}
	sort.Strings(ks)
	return ks
}


// coveredInContext: o failed in the standalone (swept, arbitrary-argument) unit of an unexported,
// uncontracted function; is the same obligation discharged in every calling context?
func coveredInContext(eng *Engine, o *Obligation, all []*Obligation, units []*Unit) bool {
	if o.Unit == nil || o.Unit.Fn == nil {
		return false
	}
	fn := o.Unit.Fn
	dbg := func(f string, a ...interface{}) {
		if os.Getenv("GOVC_DEBUG") != "" {
			fmt.Fprintf(os.Stderr, "coveredInContext %s: "+f+"\n", append([]interface{}{o.Name}, a...)...)
		}
	}
	if fn.Parent() != nil || fn.Synthetic != "" || token.IsExported(fn.Name()) || eng.contractFor(fn) != nil {
		dbg("not a plain unexported uncontracted function")
		return false
	}
	unitFns := map[*ssa.Function]bool{}
	for _, u := range units {
		if u.Fn != nil {
			unitFns[u.Fn] = true
		}
	}
	callers := 0
	for _, g := range eng.fnIndex {
		if !eng.inRepo(g) || g.Blocks == nil || g == fn {
			continue
		}
		if strings.HasSuffix(eng.fset.Position(g.Pos()).Filename, "_test.go") {
			continue
		}
		for _, b := range g.Blocks {
			for _, in := range b.Instrs {
				isCall := false
				if c, ok := in.(ssa.CallInstruction); ok && c.Common().StaticCallee() == fn {
					if _, plain := in.(*ssa.Call); !plain {
						return false // go / defer: not inlined
					}
					isCall = true
					root := g
					for root.Parent() != nil {
						root = root.Parent()
					}
					if !unitFns[root] {
						dbg("caller %s is not a unit", root)
						return false // a caller this check does not verify
					}
					callers++
				}
				if _, dbgRef := in.(*ssa.DebugRef); dbgRef {
					continue
				}
				for _, op := range in.Operands(nil) {
					if *op == ssa.Value(fn) && !isCall {
						dbg("used as a value in %s", g)
						return false // the function is used as a value
					}
				}
			}
		}
	}
	if callers == 0 {
		return false
	}
	name := fnDisplayName(fn) + " / "
	i := strings.Index(o.Name, name)
	if i != 0 {
		return false
	}
	clause := o.Name[len(name):]
	if j := strings.LastIndex(clause, " #"); j >= 0 {
		clause = clause[:j]
	}
	found := 0
	for _, p := range all {
		if p == o || !strings.Contains(p.Name, " > "+name+clause) {
			continue
		}
		found++
		if !p.Holds() {
			dbg("fails in context too: %s", p.Name)
			return false
		}
	}
	dbg("callers %d, inlined occurrences %d", callers, found)
	return found > 0
}
