package main

import "strings"

// splitGoal breaks a goal into conjuncts that can be proved separately:
//   (and A B)            -> A, B
//   (=> P (and A B))     -> (=> P A), (=> P B)
//   (forall (vs) G)      -> (forall (vs) G1), (forall (vs) G2)   for G1, G2 = split(G)
// Solvers that time out on a conjunction routinely prove each conjunct at once.
func splitGoal(g string, budget int) []string {
	g = strings.TrimSpace(g)
	if budget <= 1 || !strings.HasPrefix(g, "(") {
		return []string{g}
	}
	parts := topLevel(g)
	if len(parts) == 0 {
		return []string{g}
	}
	switch parts[0] {
	case "and":
		var out []string
		for _, p := range parts[1:] {
			out = append(out, splitGoal(p, budget/2+1)...)
		}
		return out
	case "=>":
		if len(parts) == 3 {
			sub := splitGoal(parts[2], budget)
			if len(sub) > 1 {
				var out []string
				for _, s := range sub {
					out = append(out, "(=> "+parts[1]+" "+s+")")
				}
				return out
			}
		}
	case "forall":
		if len(parts) == 3 {
			body := parts[2]
			// strip an annotation wrapper (! body :pattern ...)
			sub := splitGoal(body, budget)
			if len(sub) > 1 {
				var out []string
				for _, s := range sub {
					out = append(out, "(forall "+parts[1]+" "+s+")")
				}
				return out
			}
		}
	}
	return []string{g}
}

// topLevel splits "(f a b c)" into ["f", "a", "b", "c"] respecting nesting.
func topLevel(s string) []string {
	if len(s) < 2 || s[0] != '(' || s[len(s)-1] != ')' {
		return nil
	}
	body := s[1 : len(s)-1]
	var parts []string
	depth := 0
	start := -1
	inBar := false
	for i := 0; i < len(body); i++ {
		c := body[i]
		if inBar {
			if c == '|' {
				inBar = false
			}
			continue
		}
		switch c {
		case '|':
			inBar = true
			if start < 0 {
				start = i
			}
		case '(':
			if depth == 0 && start < 0 {
				start = i
			}
			depth++
		case ')':
			depth--
		case ' ', '\n', '\t':
			if depth == 0 && start >= 0 {
				parts = append(parts, body[start:i])
				start = -1
			}
		default:
			if start < 0 {
				start = i
			}
		}
	}
	if start >= 0 {
		parts = append(parts, body[start:])
	}
	return parts
}
