package main

import (
	"flag"
	"fmt"
	"os"
	"sort"
	"strings"
	"time"

	"golang.org/x/tools/go/ssa"
	"golang.org/x/tools/go/ssa/ssautil"
)

// cmdSweep: zero-annotation safety run over every function of the selected packages
// (development tool and the basis of C10).
func cmdSweep(args []string) {
	fs := flag.NewFlagSet("sweep", flag.ExitOnError)
	repo := fs.String("repo", "/repo", "repository")
	filter := fs.String("pkg", "", "package path substring")
	solve := fs.Bool("solve", false, "discharge the obligations too")
	timeout := fs.Int("t", 5, "timeout")
	roots := fs.String("roots", "", "comma-separated root functions: sweep their call tree only")
	fs.Parse(args)
	eng, err := LoadEngine(*repo)
	if err != nil {
		fmt.Println("ENGINE-ERROR:", err)
		os.Exit(2)
	}
	var fns []*ssa.Function
	inTree := map[*ssa.Function]bool{}
	if *roots != "" {
		for _, r := range splitList(*roots) {
			fn, _, err := eng.LookupFunc(r)
			if err != nil {
				fmt.Println("ENGINE-ERROR:", err)
				os.Exit(2)
			}
			eng.callTree(fn, inTree)
		}
	}
	for fn := range ssautil.AllFunctions(eng.prog) {
		if *roots != "" && !inTree[fn] {
			continue
		}
		if !eng.inRepo(fn) || fn.Blocks == nil || fn.Synthetic != "" {
			continue
		}
		pk, _ := fnKey(fn)
		if *filter != "" && !strings.Contains(pk, *filter) {
			continue
		}
		if strings.Contains(pk, "/testutil") {
			continue
		}
		fns = append(fns, fn)
	}
	sort.Slice(fns, func(i, j int) bool { return fns[i].String() < fns[j].String() })
	dir, _ := os.MkdirTemp("/var/tmp", "govc-sweep")
	defer os.RemoveAll(dir)
	reasons := map[string]int{}
	okFns, badFns := 0, 0
	totalObl, totalFail := 0, 0
	start := time.Now()
	for _, fn := range fns {
		if os.Getenv("GOVC_TRACE") != "" {
			fmt.Fprintln(os.Stderr, "verifying", fn)
		}
		u := eng.VerifyFunction(fn, VerifyOpts{SafetyOnly: eng.contractFor(fn) == nil})
		if u.OutOfSubset != "" {
			badFns++
			r := u.OutOfSubset
			if len(r) > 70 {
				r = r[:70]
			}
			reasons[r]++
			fmt.Printf("OUT  %-70s %s\n", fnDisplayName(fn), u.OutOfSubset)
			continue
		}
		okFns++
		for _, e := range u.errs {
			fmt.Printf("ERR  %-70s %s\n", fnDisplayName(fn), e)
		}
		totalObl += len(u.obls)
		if *solve {
			eng.Discharge(u.obls, dir, *timeout, false, nil)
			nf := 0
			for _, o := range u.obls {
				if !o.Holds() {
					nf++
					fmt.Printf("  FAIL %-8s %s  [%s] %s\n", o.Res.Verdict, o.Name, shortPos(o.Pos.String()), o.Text)
				}
			}
			totalFail += nf
			fmt.Printf("OK   %-70s obligations=%d failed=%d\n", fnDisplayName(fn), len(u.obls), nf)
		}
	}
	fmt.Printf("functions in subset: %d, out of subset: %d, obligations: %d, failed: %d, %.1fs\n", okFns, badFns, totalObl, totalFail, time.Since(start).Seconds())
	type kv struct {
		k string
		v int
	}
	var rs []kv
	for k, v := range reasons {
		rs = append(rs, kv{k, v})
	}
	sort.Slice(rs, func(i, j int) bool { return rs[i].v > rs[j].v })
	for _, r := range rs {
		fmt.Printf("%4d  %s\n", r.v, r.k)
	}
}
