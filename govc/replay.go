package main

// tryReplay attempts to reproduce a failed obligation against the real code using the
// verifier's model. Drivers are registered per function.
func tryReplay(eng *Engine, id string, o *Obligation, model map[string]string) (bool, map[string]interface{}) {
	d, ok := replayDrivers[o.Func]
	if !ok {
		return false, map[string]interface{}{"status": "no replay driver for " + o.Func}
	}
	return d(eng, id, o, model)
}

type replayDriver func(eng *Engine, id string, o *Obligation, model map[string]string) (bool, map[string]interface{})

var replayDrivers = map[string]replayDriver{}
