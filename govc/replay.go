package main

import (
	"context"
	"encoding/json"
	"fmt"
	"os"
	"os/exec"
	"path/filepath"
	"strconv"
	"strings"
	"time"
)

// tryReplay attempts to reproduce a failed obligation against the real code using the
// verifier's (candidate) model. Drivers synthesise a concrete input from the model's scalar
// choices and evaluate the violated clause at run time inside the real package.
func tryReplay(eng *Engine, id string, o *Obligation, model map[string]string) (bool, map[string]interface{}) {
	fn := o.Func
	if i := strings.Index(fn, " /unconstrained"); i >= 0 {
		fn = fn[:i]
	}
	d, ok := replayDrivers[fn]
	if !ok {
		if confirmed, info, applies := scalarReplay(eng, o, model); applies {
			return confirmed, info
		}
		return false, map[string]interface{}{"status": "no replay driver for " + fn}
	}
	pkgRel, src, ok := d(o, model)
	if !ok {
		return false, map[string]interface{}{"status": "model does not determine a concrete input for the driver"}
	}
	confirmed, out := runOverlayTest(eng.repoDir, pkgRel, src, "TestZZReplay")
	return confirmed, map[string]interface{}{"status": "replayed", "package": pkgRel, "test_source": src, "output": trunc(out, 4000), "confirmed": confirmed}
}

type replayDriver func(o *Obligation, model map[string]string) (pkgRel string, testSrc string, ok bool)

var replayDrivers = map[string]replayDriver{}

// runOverlayTest injects an in-package test by means of a build overlay (nothing is written
// under the repository) and reports whether it printed REPLAY-CONFIRMED.
func runOverlayTest(repo, pkgRel, src, testName string) (bool, string) {
	d, err := os.MkdirTemp("/var/tmp", "govc-replay")
	if err != nil {
		return false, err.Error()
	}
	defer os.RemoveAll(d)
	tf := filepath.Join(d, "zz_replay_test.go")
	os.WriteFile(tf, []byte(src), 0o644)
	absRepo, _ := filepath.Abs(repo)
	ov := map[string]map[string]string{"Replace": {filepath.Join(absRepo, pkgRel, "zz_replay_test.go"): tf}}
	ob, _ := json.Marshal(ov)
	ovf := filepath.Join(d, "ov.json")
	os.WriteFile(ovf, ob, 0o644)
	ctx, cancel := context.WithTimeout(context.Background(), 120*time.Second)
	defer cancel()
	cmd := exec.CommandContext(ctx, "bash", "-c", fmt.Sprintf("ulimit -v 4000000; cd %q && go test -overlay %q -vet=off -timeout 60s -count=1 -run '^%s$' -v ./%s 2>&1", absRepo, ovf, testName, pkgRel))
	out, _ := cmd.CombinedOutput()
	s := string(out)
	return strings.Contains(s, "REPLAY-CONFIRMED"), s
}

func modelInt(model map[string]string, key string) (int64, bool) {
	v, ok := model[key]
	if !ok {
		return 0, false
	}
	v = strings.TrimSpace(v)
	neg := false
	if strings.HasPrefix(v, "(-") {
		neg = true
		v = strings.TrimSuffix(strings.TrimSpace(v[2:]), ")")
	}
	n, err := strconv.ParseInt(strings.TrimSpace(v), 10, 64)
	if err != nil {
		return 0, false
	}
	if neg {
		n = -n
	}
	return n, true
}

func modelBool(model map[string]string, key string) (bool, bool) {
	v, ok := model[key]
	if !ok {
		return false, false
	}
	return strings.TrimSpace(v) == "true", true
}

func init() {
	replayDrivers["validation.ValidateLimit"] = func(o *Obligation, m map[string]string) (string, string, bool) {
		lim, ok := modelInt(m, "arg.limit")
		if !ok {
			return "", "", false
		}
		src := fmt.Sprintf(`package validation

import "testing"

func TestZZReplay(t *testing.T) {
	limit := %d
	got, err := ValidateLimit(limit)
	bad := ""
	if err == nil && !(1 <= got && got <= 100) { bad = "limit-range" }
	if limit == 0 && !(got == 5 && err == nil) { bad = "limit-default" }
	if (limit < 0 || limit > 100) && err == nil { bad = "limit-reject" }
	if 1 <= limit && limit <= 100 && !(got == limit && err == nil) { bad = "limit-accept" }
	if bad != "" { t.Logf("REPLAY-CONFIRMED: ValidateLimit(%%d) = (%%d, %%v) violates %%s", limit, got, err, bad) }
}
`, lim)
		return "internal/validation", src, true
	}
	replayDrivers["(*history.SearchHistory).AddEntry"] = func(o *Obligation, m map[string]string) (string, string, bool) {
		max, ok1 := modelInt(m, "(T.history.SearchHistory.MaxSize (select H.history.SearchHistory@0 arg.sh))")
		n, ok2 := modelInt(m, "(sl.len (T.history.SearchHistory.Entries (select H.history.SearchHistory@0 arg.sh)))")
		if !ok1 || !ok2 || n < 0 || n > 100000 {
			return "", "", false
		}
		src := fmt.Sprintf(`package history

import ("testing"; "fmt")

func TestZZReplay(t *testing.T) {
	for _, same := range []bool{false, true} {
		func() {
			sh := &SearchHistory{MaxSize: %d}
			for i := 0; i < %d; i++ { sh.Entries = append(sh.Entries, SearchEntry{Query: fmt.Sprintf("q%%d", i)}) }
			q := "new"
			if same && len(sh.Entries) > 0 { q = sh.Entries[len(sh.Entries)-1].Query }
			before := append([]SearchEntry(nil), sh.Entries...)
			defer func() {
				if r := recover(); r != nil { t.Logf("REPLAY-CONFIRMED: AddEntry panics with MaxSize=%%d len=%%d: %%v", sh.MaxSize, len(before), r) }
			}()
			sh.AddEntry(q, 3, "ctx", 0)
			wf := sh.MaxSize >= 1 && len(sh.Entries) <= sh.MaxSize
			newest := len(sh.Entries) >= 1 && sh.Entries[len(sh.Entries)-1].Query == q
			if !newest { t.Logf("REPLAY-CONFIRMED: after AddEntry(MaxSize=%%d, len=%%d, repeat=%%v) the newest entry is not the recorded search", sh.MaxSize, len(before), same) }
			if %v && !wf { t.Logf("REPLAY-CONFIRMED: after AddEntry(MaxSize=%%d, len=%%d) the history is not well-formed (len=%%d)", sh.MaxSize, len(before), len(sh.Entries)) }
		}()
	}
}
`, max, n, max >= 1 && n <= max)
		return "internal/history", src, true
	}
}
