package main

import (
	"fmt"
	"go/constant"
	"go/types"
	"sort"
	"strings"
)

// World collects the SMT declarations needed by one verification unit (one function
// under verification together with everything inlined into it).
type World struct {
	decls      []string
	declared   map[string]bool
	structName map[string]string // canonical type string -> datatype name
	structType map[string]*types.Struct
	strLits    map[string]Term
	strLitList []string
	fresh      int
	anon       int
	typeTags   map[string]int
	ufs        map[string]bool
	heapTypes  map[string]types.Type
}

func NewWorld() *World {
	return &World{declared: map[string]bool{}, structName: map[string]string{}, structType: map[string]*types.Struct{},
		strLits: map[string]Term{}, typeTags: map[string]int{}, ufs: map[string]bool{}, heapTypes: map[string]types.Type{}}
}

func sanitize(s string) string {
	var b strings.Builder
	for _, c := range s {
		switch {
		case c >= 'a' && c <= 'z', c >= 'A' && c <= 'Z', c >= '0' && c <= '9', c == '_', c == '.', c == '$', c == '@', c == '!':
			b.WriteRune(c)
		case c == '*':
			b.WriteString("ptr.")
		case c == '[':
			b.WriteString("L")
		case c == ']':
			b.WriteString("J")
		case c == '/':
			b.WriteString("_")
		case c == ' ':
		default:
			b.WriteString("_")
		}
	}
	return b.String()
}

func typeKey(t types.Type) string {
	s := types.TypeString(t, func(p *types.Package) string {
		path := p.Path()
		if strings.HasPrefix(path, "github.com/Vedant9500/WTF/internal/") {
			return strings.TrimPrefix(path, "github.com/Vedant9500/WTF/internal/")
		}
		if strings.HasPrefix(path, "github.com/") || strings.HasPrefix(path, "gopkg.in/") {
			if i := strings.LastIndex(path, "/"); i >= 0 {
				return path[i+1:]
			}
		}
		return path
	})
	return sanitize(s)
}

func (w *World) declare(name, decl string) {
	if w.declared[name] {
		return
	}
	w.declared[name] = true
	w.decls = append(w.decls, decl)
}

func (w *World) Fresh(prefix, sort string) Term {
	w.fresh++
	name := fmt.Sprintf("%s!%d", sanitize(prefix), w.fresh)
	w.decls = append(w.decls, fmt.Sprintf("(declare-const %s %s)", name, sort))
	return Term{name, sort}
}

// Const declares (once) a named constant.
func (w *World) Const(name, sort string) Term {
	name = sanitize(name)
	w.declare(name, fmt.Sprintf("(declare-const %s %s)", name, sort))
	return Term{name, sort}
}

// UF declares (once) an uninterpreted function and applies it.
func (w *World) UF(name string, ret string, args ...Term) Term {
	name = sanitize(name)
	var as []string
	for _, a := range args {
		as = append(as, a.Sort)
	}
	key := name + "/" + strings.Join(as, ",") + "->" + ret
	if !w.ufs[key] {
		if w.declared[name] {
			// same name different signature: disambiguate
			name = name + "." + sanitize(strings.Join(as, "."))
			key = name + "/" + strings.Join(as, ",") + "->" + ret
		}
		if !w.ufs[key] {
			w.ufs[key] = true
			w.declare(name, fmt.Sprintf("(declare-fun %s (%s) %s)", name, strings.Join(as, " "), ret))
		}
	} else if !w.declared[name] {
		name = name + "." + sanitize(strings.Join(as, "."))
	}
	if len(args) == 0 {
		return Term{name, ret}
	}
	return app(ret, name, args...)
}

func (w *World) StrLit(s string) Term {
	if s == "" {
		return Term{"s.empty", SStr}
	}
	if t, ok := w.strLits[s]; ok {
		return t
	}
	name := fmt.Sprintf("lit!%d", len(w.strLits))
	t := Term{name, SStr}
	w.strLits[s] = t
	w.strLitList = append(w.strLitList, s)
	return t
}

func (w *World) TypeTag(t types.Type) Term {
	k := typeKey(t)
	if n, ok := w.typeTags[k]; ok {
		return IntLit(int64(n))
	}
	n := len(w.typeTags) + 1
	w.typeTags[k] = n
	return IntLit(int64(n))
}

// SortOf maps a Go type to an SMT sort, declaring datatypes on demand.
func (w *World) SortOf(t types.Type) string {
	switch u := t.(type) {
	case *types.Named:
		if st, ok := u.Underlying().(*types.Struct); ok {
			return w.structSort(typeKey(u), st)
		}
		return w.SortOf(u.Underlying())
	case *types.Alias:
		return w.SortOf(types.Unalias(u))
	case *types.Basic:
		switch {
		case u.Info()&types.IsBoolean != 0:
			return SBool
		case u.Info()&types.IsInteger != 0:
			return SInt
		case u.Info()&types.IsFloat != 0:
			return SReal
		case u.Info()&types.IsString != 0:
			return SStr
		case u.Kind() == types.UnsafePointer:
			return SPtr
		case u.Kind() == types.UntypedNil:
			return SPtr
		case u.Info()&types.IsComplex != 0:
			return "Opaque"
		}
		return "Opaque"
	case *types.Pointer:
		return SPtr
	case *types.Slice:
		return SSlice
	case *types.Map:
		return SPtr
	case *types.Chan:
		return SPtr
	case *types.Signature:
		return SFn
	case *types.Interface:
		return SIface
	case *types.Struct:
		w.anon++
		key := "anon." + typeKey(u)
		return w.structSort(key, u)
	case *types.Array:
		return ArraySort(SInt, w.SortOf(u.Elem()))
	case *types.Tuple:
		return "Opaque"
	case *types.TypeParam:
		return "Opaque"
	}
	return "Opaque"
}

func (w *World) structSort(key string, st *types.Struct) string {
	if n, ok := w.structName[key]; ok {
		return n
	}
	name := "T." + key
	if len(name) > 120 {
		name = fmt.Sprintf("T.anon%d", len(w.structName))
	}
	w.structName[key] = name
	w.structType[name] = st
	var fields []string
	for i := 0; i < st.NumFields(); i++ {
		f := st.Field(i)
		fs := w.SortOf(f.Type())
		fields = append(fields, fmt.Sprintf("(%s (%s %s))", "", fieldSel(name, i, f.Name()), fs))
	}
	var fb strings.Builder
	for i := 0; i < st.NumFields(); i++ {
		f := st.Field(i)
		fmt.Fprintf(&fb, " (%s %s)", fieldSel(name, i, f.Name()), w.SortOf(f.Type()))
	}
	_ = fields
	if st.NumFields() == 0 {
		w.decls = append(w.decls, fmt.Sprintf("(declare-datatypes ((%s 0)) (((mk.%s))))", name, name))
	} else {
		w.decls = append(w.decls, fmt.Sprintf("(declare-datatypes ((%s 0)) (((mk.%s%s))))", name, name, fb.String()))
	}
	return name
}

func fieldSel(dt string, i int, fname string) string {
	if fname == "_" {
		fname = fmt.Sprintf("blank%d", i)
	}
	return dt + "." + sanitize(fname)
}

// StructOf returns the struct type underlying t (nil if none).
func structOf(t types.Type) *types.Struct {
	st, _ := t.Underlying().(*types.Struct)
	return st
}

func (w *World) FieldGet(structT types.Type, v Term, i int) Term {
	st := structOf(structT)
	dt := w.SortOf(structT)
	f := st.Field(i)
	return app(w.SortOf(f.Type()), fieldSel(dt, i, f.Name()), v)
}

func (w *World) FieldSet(structT types.Type, v Term, i int, nv Term) Term {
	st := structOf(structT)
	dt := w.SortOf(structT)
	args := make([]Term, st.NumFields())
	for j := 0; j < st.NumFields(); j++ {
		if j == i {
			fs := w.SortOf(st.Field(j).Type())
			if fs == SReal {
				nv = ToReal(nv)
			}
			args[j] = nv
		} else {
			args[j] = w.FieldGet(structT, v, j)
		}
	}
	return app(dt, "mk."+dt, args...)
}

func (w *World) MkStruct(structT types.Type, vals []Term) Term {
	dt := w.SortOf(structT)
	if len(vals) == 0 {
		return Term{"mk." + dt, dt}
	}
	return app(dt, "mk."+dt, vals...)
}

// Zero value of a Go type.
func (w *World) Zero(t types.Type) Term {
	switch u := t.Underlying().(type) {
	case *types.Basic:
		switch {
		case u.Info()&types.IsBoolean != 0:
			return TFalse
		case u.Info()&types.IsInteger != 0:
			return IntLit(0)
		case u.Info()&types.IsFloat != 0:
			return Term{"0.0", SReal}
		case u.Info()&types.IsString != 0:
			return Term{"s.empty", SStr}
		}
		return w.Const("opaque.zero", "Opaque")
	case *types.Pointer, *types.Map, *types.Chan:
		return TNil
	case *types.Slice:
		return NilSlice
	case *types.Signature:
		return w.Const("fn.nil", SFn)
	case *types.Interface:
		return Term{"iface.nil", SIface}
	case *types.Struct:
		vals := make([]Term, u.NumFields())
		for i := range vals {
			vals[i] = w.Zero(u.Field(i).Type())
		}
		return w.MkStruct(t, vals)
	case *types.Array:
		s := w.SortOf(t)
		return ConstArray(s, w.Zero(u.Elem()))
	}
	return w.Const("opaque.zero", "Opaque")
}

// ConstTerm translates a Go constant of the given type.
func (w *World) ConstTerm(c constant.Value, t types.Type) Term {
	if c == nil {
		return w.Zero(t)
	}
	b, _ := t.Underlying().(*types.Basic)
	switch c.Kind() {
	case constant.Bool:
		return BoolLit(constant.BoolVal(c))
	case constant.String:
		return w.StrLit(constant.StringVal(c))
	case constant.Int:
		if b != nil && b.Info()&types.IsFloat != 0 {
			return realLit(c)
		}
		return IntLitStr(c.ExactString())
	case constant.Float:
		if b != nil && b.Info()&types.IsInteger != 0 {
			if i := constant.ToInt(c); i.Kind() == constant.Int {
				return IntLitStr(i.ExactString())
			}
		}
		return realLit(c)
	}
	return w.Fresh("const", w.SortOf(t))
}

func realLit(c constant.Value) Term {
	f := constant.ToFloat(c)
	num := constant.Num(f)
	den := constant.Denom(f)
	ns, ds := num.ExactString(), den.ExactString()
	neg := false
	if strings.HasPrefix(ns, "-") {
		neg = true
		ns = ns[1:]
	}
	var s string
	if ds == "1" {
		s = ns + ".0"
	} else {
		s = "(/ " + ns + ".0 " + ds + ".0)"
	}
	if neg {
		s = "(- " + s + ")"
	}
	return Term{s, SReal}
}

// HeapName returns the heap identifier for values of type t behind pointers.
func heapName(t types.Type) string { return "H." + typeKey(t) }

// Literal facts emitted at the end of the declarations.
func (w *World) literalDecls() string {
	var b strings.Builder
	lits := append([]string(nil), w.strLitList...)
	for i, s := range lits {
		_ = i
		t := w.strLits[s]
		fmt.Fprintf(&b, "(declare-const %s Str) ; %q\n(assert (= (s.len %s) %d))\n", t.S, trunc(s, 60), t.S, len(s))
	}
	if len(lits) > 1 {
		names := make([]string, 0, len(lits)+1)
		for _, s := range lits {
			names = append(names, w.strLits[s].S)
		}
		sort.Strings(names)
		fmt.Fprintf(&b, "(assert (distinct %s))\n", strings.Join(names, " "))
	}
	return b.String()
}

func trunc(s string, n int) string {
	if len(s) > n {
		return s[:n] + "…"
	}
	return s
}
