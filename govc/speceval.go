package main

import (
	"fmt"
	"strconv"
	gosort "sort"
	"go/constant"
	"go/token"
	"go/types"
	"strings"

	"golang.org/x/tools/go/ssa"
)

type SVal struct {
	T  Term
	GT types.Type // Go type when known
}

type SpecEnv struct {
	u      *Unit
	x      *Exec
	pkg    *types.Package
	vars   map[string]SVal
	cur    *State
	old    *State
	reach  Term
	bound  map[string]SVal // quantifier variables, results, pure-function parameters (highest priority)
	locals bool // identifiers may refer to local cells of x.fn (loop invariants, asserts)
	depth  int
	noAlts bool // inside an instantiated alternative of an exists: nested exists stay plain
	header *ssa.BasicBlock
	callSite bool // evaluating a callee's contract at a call site: the callee's ghost call counters are not the caller's
	owner    *ssa.Function // the function whose contract the clause belongs to (default: x.fn)
	aliasing bool
}

func (x *Exec) specEnv(cur *State, extra map[string]SVal) *SpecEnv {
	vars := map[string]SVal{}
	for k, v := range x.params {
		vars[k] = v
	}
	bound := map[string]SVal{}
	for k, v := range extra {
		bound[k] = v
	}
	var pkg *types.Package
	if x.fn.Pkg != nil {
		pkg = x.fn.Pkg.Pkg
	} else if x.fn.Parent() != nil && x.fn.Parent().Pkg != nil {
		pkg = x.fn.Parent().Pkg.Pkg
	}
	if x.fc != nil {
		if p := x.u.eng.typesPkgFor(x.fc.Pkg); p != nil {
			pkg = p
		}
	}
	return &SpecEnv{u: x.u, x: x, pkg: pkg, vars: vars, bound: bound, cur: cur, old: x.entry, reach: x.curBlockReach, locals: true}
}

func (e *SpecEnv) with(vars map[string]SVal) *SpecEnv {
	n := *e
	n.bound = map[string]SVal{}
	for k, v := range e.bound {
		n.bound[k] = v
	}
	for k, v := range vars {
		n.bound[k] = v
	}
	return &n
}

func (e *SpecEnv) isBound(name string) bool {
	if _, ok := e.bound[name]; ok {
		return true
	}
	_, ok := e.vars[name]
	return ok
}

func (e *SpecEnv) EvalBool(s *SExpr) (t Term, err error) {
	defer func() {
		if r := recover(); r != nil {
			if ea, ok := r.(execAbort); ok {
				err = fmt.Errorf("%s", ea.msg)
				return
			}
			if se, ok := r.(specErr); ok {
				err = fmt.Errorf("%s", string(se))
				return
			}
			panic(r)
		}
	}()
	v := e.eval(s)
	if v.T.Sort != SBool {
		return Term{}, fmt.Errorf("expression %s is not boolean (sort %s)", s, v.T.Sort)
	}
	return v.T, nil
}

func (e *SpecEnv) Eval(s *SExpr) (v SVal, err error) {
	defer func() {
		if r := recover(); r != nil {
			if ea, ok := r.(execAbort); ok {
				err = fmt.Errorf("%s", ea.msg)
				return
			}
			if se, ok := r.(specErr); ok {
				err = fmt.Errorf("%s", string(se))
				return
			}
			panic(r)
		}
	}()
	return e.eval(s), nil
}

type specErr string

func (e *SpecEnv) fail(f string, a ...interface{}) {
	panic(specErr(fmt.Sprintf(f, a...)))
}

var intT = types.Typ[types.Int]
var boolT = types.Typ[types.Bool]
var floatT = types.Typ[types.Float64]
var stringT = types.Typ[types.String]

func (e *SpecEnv) heapRead(t types.Type, p Term) Term {
	hn, hs := heapName(t), ArraySort(SPtr, e.u.W.SortOf(t))
	e.u.W.heapTypes[hn] = t
	return Select(e.cur.Heap(hn, hs), p)
}

func (e *SpecEnv) eval(s *SExpr) SVal {
	w := e.u.W
	switch s.Kind {
	case "int":
		return SVal{IntLitStr(s.Name), intT}
	case "real":
		return SVal{realFromString(s.Name), floatT}
	case "str":
		return SVal{w.StrLit(s.Name), stringT}
	case "ident":
		return e.ident(s.Name)
	case "old":
		n := *e
		n.cur = e.old
		if n.cur == nil {
			e.fail("old() without entry state")
		}
		return n.eval(s.Args[0])
	case "cond":
		c := e.eval(s.Args[0])
		a := e.eval(s.Args[1])
		b := e.eval(s.Args[2])
		gt := a.GT
		if gt == nil {
			gt = b.GT
		}
		return SVal{Ite(c.T, a.T, b.T), gt}
	case "un":
		switch s.Op {
		case "!":
			return SVal{Not(e.eval(s.Args[0]).T), boolT}
		case "-":
			a := e.eval(s.Args[0])
			return SVal{app(a.T.Sort, "-", a.T), a.GT}
		case "&":
			return e.addrOf(s.Args[0])
		case "*":
			a := e.eval(s.Args[0])
			pt, ok := under(a.GT).(*types.Pointer)
			if !ok {
				e.fail("deref of non-pointer %s", s.Args[0])
			}
			return SVal{e.heapRead(pt.Elem(), a.T), pt.Elem()}
		}
	case "bin":
		return e.bin(s)
	case "field":
		return e.field(s)
	case "index":
		return e.index(s)
	case "slice":
		a := e.eval(s.Args[0])
		lo := IntLit(0)
		if s.Args[1] != nil {
			lo = e.eval(s.Args[1]).T
		}
		if a.T.Sort == SStr {
			hi := app(SInt, "s.len", a.T)
			if s.Args[2] != nil {
				hi = e.eval(s.Args[2]).T
			}
			return SVal{app(SStr, "s.sub", a.T, lo, hi), a.GT}
		}
		hi := SlLen(a.T)
		if s.Args[2] != nil {
			hi = e.eval(s.Args[2]).T
		}
		return SVal{MkSlice(PtrAdd(SlPtr(a.T), lo), Sub(hi, lo), Sub(SlCap(a.T), lo)), a.GT}
	case "call":
		return e.call(s)
	case "quant":
		vars := map[string]SVal{}
		var decls []string
		var guards []Term
		for _, v := range s.Vars {
			gt, sort := e.resolveType(v.Type)
			e.u.qid++
			name := fmt.Sprintf("%s!q%d", sanitize(v.Name), e.u.qid)
			vars[v.Name] = SVal{Term{name, sort}, gt}
			decls = append(decls, fmt.Sprintf("(%s %s)", name, sort))
			_ = guards
		}
		body := e.with(vars).eval(s.Args[0])
		if body.T.Sort != SBool {
			e.fail("quantifier body not boolean: %s", s.Args[0])
		}
		q := "forall"
		if s.Op == "exists" {
			q = "exists"
		}
		qt := Term{fmt.Sprintf("(%s (%s) %s)", q, strings.Join(decls, " "), body.T.S), SBool}
		if s.Op == "exists" && len(s.Vars) == 1 && e.x != nil && e.cur != nil && e.depth < 3 && !e.noAlts {
			// equivalent reformulation that spares the solver the search for a witness:
			// (exists i. B) == B[c1] || ... || B[cn] || (exists i. B) for any terms c;
			// candidates are the integer locals of the current state
			if _, sort := e.resolveType(s.Vars[0].Type); sort == SInt || sort == SStr {
				alts := []Term{}
				seen := map[string]bool{}
				var keys []*ssa.Alloc
				for k, v := range e.cur.cells {
					if al, ok := k.(*ssa.Alloc); ok {
						et := al.Type().Underlying().(*types.Pointer).Elem()
						if t, ok := v.(Term); ok && t.Sort == sort && ((sort == SInt && isInteger(et)) || (sort == SStr && isString(et))) {
							keys = append(keys, al)
						}
					}
				}
				gosort.Slice(keys, func(i, j int) bool { return keys[i].Pos() < keys[j].Pos() })
				for _, al := range keys {
					t := e.cur.cells[al].(Term)
					cands := []Term{t}
					if sort == SInt {
						cands = []Term{t, Add(t, IntLit(1)), Sub(t, IntLit(1))}
					}
					for _, c := range cands {
						if seen[c.S] || len(alts) >= 9 {
							continue
						}
						seen[c.S] = true
						ct := types.Type(intT)
						if sort == SStr {
							ct = stringT
						}
						ie := e.with(map[string]SVal{s.Vars[0].Name: {c, ct}})
						ie.noAlts = true
						inst := ie.eval(s.Args[0])
						alts = append(alts, inst.T)
					}
				}
				if sort == SInt {
					// the last element of a slice-valued local (the witness after an append)
					var sk []*ssa.Alloc
					for k, v := range e.cur.cells {
						if al, ok := k.(*ssa.Alloc); ok {
							if t, ok := v.(Term); ok && t.Sort == SSlice {
								sk = append(sk, al)
							}
						}
					}
					gosort.Slice(sk, func(i, j int) bool { return sk[i].Pos() < sk[j].Pos() })
					for _, al := range sk {
						c := Sub(SlLen(e.cur.cells[al].(Term)), IntLit(1))
						if seen[c.S] || len(alts) >= 14 {
							continue
						}
						seen[c.S] = true
						ie := e.with(map[string]SVal{s.Vars[0].Name: {c, intT}})
						ie.noAlts = true
						inst := ie.eval(s.Args[0])
						alts = append(alts, inst.T)
					}
				}
				if len(alts) > 0 {
					alts = append(alts, qt)
					return SVal{Or(alts...), boolT}
				}
			}
		}
		return SVal{qt, boolT}
	}
	e.fail("cannot evaluate %s", s)
	return SVal{}
}

func under(t types.Type) types.Type {
	if t == nil {
		return nil
	}
	return t.Underlying()
}

// realFromString: a decimal literal of the contract language denotes the float64 nearest to it,
// exactly as the same literal does in the Go source (0.8 is not 4/5 in either place).
func realFromString(s string) Term {
	if f, err := strconv.ParseFloat(s, 64); err == nil {
		return realLit(constant.MakeFloat64(f))
	}
	return realLit(constant.MakeFromLiteral(s, token.FLOAT, 0))
}
func (e *SpecEnv) ident(name string) SVal {
	w := e.u.W
	switch name {
	case "true":
		return SVal{TTrue, boolT}
	case "false":
		return SVal{TFalse, boolT}
	case "nil":
		return SVal{TNil, types.Typ[types.UntypedNil]}
	case "$alloc0":
		return SVal{e.x.alloc0, intT}
	case "$i":
		return e.rangeIndex()
	case "$visited", "$n":
		return e.mapIterVar(name)
	}
	if v, ok := e.bound[name]; ok {
		return v
	}
	if e.locals && e.x != nil {
		if v, ok := e.localCell(name); ok {
			return v
		}
	}
	if v, ok := e.vars[name]; ok {
		return v
	}
	// package-level objects
	if e.pkg != nil {
		if obj := e.pkg.Scope().Lookup(name); obj != nil {
			switch o := obj.(type) {
			case *types.Const:
				return SVal{w.ConstTerm(o.Val(), o.Type()), o.Type()}
			case *types.Var:
				// global variable: read its cell
				if e.x != nil {
					if sp := e.u.eng.prog.Package(e.pkg); sp != nil {
						if g, ok := sp.Members[name].(*ssa.Global); ok {
							l := &Loc{Kind: "cell", Key: g, Root: o.Type()}
							v := e.x.load(l, e.cur)
							return SVal{e.x.term(v), o.Type()}
						}
					}
				}
			}
		}
	}
	// zero-arity pure function
	if pf, ok := e.u.eng.cs.Pures[name]; ok && len(pf.Params) == 0 {
		return e.applyPure(pf, nil)
	}
	// a parameter or local that was renamed since the contract was written: same declaration
	// ordinal, other name (recorded in /verif/locals.json). The clause is evaluated with the new
	// name - it is still proved, not trusted, so a wrong guess cannot make anything pass; failures
	// in a function where this happened are reported as undecided, like contract drift.
	if !e.aliasing {
		owner := e.owner
		if owner == nil && e.x != nil {
			owner = e.x.fn
		}
		if owner != nil {
			if alt, ok := e.u.eng.renamedIdent(owner, name); ok {
				e.aliasing = true
				defer func() { e.aliasing = false }()
				v := e.ident(alt)
				e.u.eng.noteAlias(owner, name, alt)
				return v
			}
		}
	}
	e.fail("unknown identifier %q", name)
	return SVal{}
}

// localCell resolves a source-level local variable name to its current value.
func (e *SpecEnv) localCell(name string) (SVal, bool) {
	x := e.x
	want := name
	ord := 0
	if i := strings.Index(name, "#"); i >= 0 {
		fmt.Sscanf(name[i+1:], "%d", &ord)
		want = name[:i]
	}
	n := 0
	var found *ssa.Alloc
	for _, a := range x.fn.Locals {
		if a.Comment == want {
			n++
			if ord == 0 {
				if _, ok := e.cur.cells[a]; ok || !x.isCell(a) {
					if found == nil {
						found = a
					}
				}
			} else if n == ord {
				found = a
			}
		}
	}
	if found == nil {
		// heap-allocated named locals (captured and escaping) are registers of x
		for _, b := range x.fn.Blocks {
			for _, in := range b.Instrs {
				if a, ok := in.(*ssa.Alloc); ok && a.Comment == want && a.Heap {
					if _, ok := x.regs[a]; ok && found == nil {
						found = a
					}
				}
			}
		}
	}
	if found == nil {
		return SVal{}, false
	}
	et := found.Type().Underlying().(*types.Pointer).Elem()
	if x.isCell(found) {
		v, ok := e.cur.cells[found]
		if !ok {
			return SVal{}, false
		}
		t, ok := v.(Term)
		if !ok {
			e.fail("local %s holds a non-term value", name)
		}
		return SVal{t, et}, true
	}
	lv, ok := x.regs[found].(*Loc)
	if !ok {
		return SVal{}, false
	}
	return SVal{e.heapRead(et, lv.Ptr), et}, true
}

func (e *SpecEnv) rangeIndex() SVal {
	if e.x == nil || e.header == nil {
		e.fail("$i outside a loop invariant")
	}
	for _, in := range e.header.Instrs {
		if st, ok := in.(*ssa.Store); ok {
			if a, ok := st.Addr.(*ssa.Alloc); ok && a.Comment == "rangeindex" {
				if v, ok := e.cur.cells[a].(Term); ok {
					return SVal{Add(v, IntLit(1)), intT}
				}
			}
		}
	}
	e.fail("$i: loop is not a range-over-slice loop")
	return SVal{}
}

func (e *SpecEnv) mapIterVar(name string) SVal {
	if e.x == nil || e.header == nil {
		e.fail("%s outside a loop invariant", name)
	}
	for _, in := range e.header.Instrs {
		if nx, ok := in.(*ssa.Next); ok {
			if r, ok := nx.Iter.(*ssa.Range); ok {
				if it, ok := e.cur.cells[r].(*MapIter); ok {
					if name == "$n" {
						return SVal{it.N, intT}
					}
					return SVal{it.Visited, nil}
				}
			}
		}
	}
	e.fail("%s: loop is not a range-over-map loop", name)
	return SVal{}
}

func (e *SpecEnv) bin(s *SExpr) SVal {
	op := s.Op
	if op == "&&" || op == "||" || op == "==>" || op == "<==>" {
		a := e.eval(s.Args[0])
		b := e.eval(s.Args[1])
		if a.T.Sort != SBool || b.T.Sort != SBool {
			e.fail("boolean operator %s on non-boolean operands in %s", op, s)
		}
		switch op {
		case "&&":
			return SVal{And(a.T, b.T), boolT}
		case "||":
			return SVal{Or(a.T, b.T), boolT}
		case "==>":
			return SVal{Implies(a.T, b.T), boolT}
		default:
			return SVal{Eq(a.T, b.T), boolT}
		}
	}
	a := e.eval(s.Args[0])
	b := e.eval(s.Args[1])
	if op == "in" {
		if mt, ok := under(b.GT).(*types.Map); ok {
			md, _, _, ks, _ := mapHeaps(e.u.W, mt)
			dom := Select(e.cur.Heap(md, ArraySort(SPtr, ArraySort(ks, SBool))), b.T)
			return SVal{Select(dom, a.T), boolT}
		}
		if strings.HasPrefix(b.T.Sort, "(Array ") {
			return SVal{Select(b.T, a.T), boolT}
		}
		e.fail("'in' on non-map %s", s.Args[1])
	}
	// nil adapts to the other operand
	a, b = e.adaptNil(a, b)
	b, a = e.adaptNil(b, a)
	switch op {
	case "==":
		e.checkSorts(a, b, s)
		return SVal{Eq(a.T, b.T), boolT}
	case "!=":
		e.checkSorts(a, b, s)
		return SVal{Not(Eq(a.T, b.T)), boolT}
	case "<":
		if a.T.Sort == SStr {
			return SVal{app(SBool, "s.lt", a.T, b.T), boolT}
		}
		return SVal{Lt(a.T, b.T), boolT}
	case "<=":
		return SVal{Le(a.T, b.T), boolT}
	case ">":
		return SVal{Gt(a.T, b.T), boolT}
	case ">=":
		return SVal{Ge(a.T, b.T), boolT}
	case "+":
		if a.T.Sort == SStr {
			return SVal{app(SStr, "s.cat", a.T, b.T), a.GT}
		}
		return SVal{Add(a.T, b.T), numT(a, b)}
	case "-":
		return SVal{Sub(a.T, b.T), numT(a, b)}
	case "*":
		return SVal{Mul(a.T, b.T), numT(a, b)}
	case "/":
		if a.T.Sort == SReal || b.T.Sort == SReal {
			return SVal{app(SReal, "/", ToReal(a.T), ToReal(b.T)), floatT}
		}
		return SVal{app(SInt, "gdiv", a.T, b.T), intT}
	case "%":
		return SVal{app(SInt, "gmod", a.T, b.T), intT}
	}
	e.fail("operator %s", op)
	return SVal{}
}

func numT(a, b SVal) types.Type {
	if a.T.Sort == SReal || b.T.Sort == SReal {
		return floatT
	}
	if a.GT != nil {
		return a.GT
	}
	return b.GT
}

func (e *SpecEnv) checkSorts(a, b SVal, s *SExpr) {
	as, bs := a.T.Sort, b.T.Sort
	if as == bs || (as == SInt && bs == SReal) || (as == SReal && bs == SInt) {
		return
	}
	e.fail("comparison of different sorts %s and %s in %s", as, bs, s)
}

func (e *SpecEnv) adaptNil(a, b SVal) (SVal, SVal) {
	if bt, ok := a.GT.(*types.Basic); ok && bt.Kind() == types.UntypedNil {
		switch b.T.Sort {
		case SSlice:
			return SVal{NilSlice, b.GT}, b
		case SIface:
			return SVal{Term{"iface.nil", SIface}, b.GT}, b
		case SPtr:
			return SVal{TNil, b.GT}, b
		}
	}
	return a, b
}

func (e *SpecEnv) field(s *SExpr) SVal {
	w := e.u.W
	// package-qualified identifier?
	if id := s.Args[0]; id.Kind == "ident" {
		if !e.isBound(id.Name) {
			if p := e.importedPkg(id.Name); p != nil {
				obj := p.Scope().Lookup(s.Name)
				if c, ok := obj.(*types.Const); ok {
					return SVal{w.ConstTerm(c.Val(), c.Type()), c.Type()}
				}
				if v, ok := obj.(*types.Var); ok && e.x != nil {
					if sp := e.u.eng.prog.Package(p); sp != nil {
						if g, ok := sp.Members[s.Name].(*ssa.Global); ok {
							l := &Loc{Kind: "cell", Key: g, Root: v.Type()}
							return SVal{e.x.term(e.x.load(l, e.cur)), v.Type()}
						}
					}
				}
				e.fail("unsupported package member %s.%s", id.Name, s.Name)
			}
		}
	}
	a := e.eval(s.Args[0])
	if a.GT == nil {
		e.fail("field access %s on value of unknown type", s)
	}
	t := a.GT
	val := a.T
	if pt, ok := under(t).(*types.Pointer); ok {
		val = e.heapRead(pt.Elem(), a.T)
		t = pt.Elem()
	}
	st := structOf(t)
	if st == nil {
		e.fail("field access %s on non-struct %s", s, t)
	}
	for i := 0; i < st.NumFields(); i++ {
		if st.Field(i).Name() == s.Name {
			return SVal{w.FieldGet(t, val, i), st.Field(i).Type()}
		}
	}
	// embedded fields one level
	for i := 0; i < st.NumFields(); i++ {
		if st.Field(i).Embedded() {
			if inner := structOf(st.Field(i).Type()); inner != nil {
				for j := 0; j < inner.NumFields(); j++ {
					if inner.Field(j).Name() == s.Name {
						return SVal{w.FieldGet(st.Field(i).Type(), w.FieldGet(t, val, i), j), inner.Field(j).Type()}
					}
				}
			}
		}
	}
	e.fail("no field %s in %s", s.Name, t)
	return SVal{}
}

func (e *SpecEnv) index(s *SExpr) SVal {
	a := e.eval(s.Args[0])
	i := e.eval(s.Args[1])
	switch t := under(a.GT).(type) {
	case *types.Slice:
		return SVal{e.heapRead(t.Elem(), Elem(a.T, i.T)), t.Elem()}
	case *types.Map:
		_, mv, _, ks, vs := mapHeaps(e.u.W, t)
		val := Select(e.cur.Heap(mv, ArraySort(SPtr, ArraySort(ks, vs))), a.T)
		md, _, _, _, _ := mapHeaps(e.u.W, t)
		dom := Select(e.cur.Heap(md, ArraySort(SPtr, ArraySort(ks, SBool))), a.T)
		return SVal{Ite(Select(dom, i.T), Select(val, i.T), e.u.W.Zero(t.Elem())), t.Elem()}
	case *types.Basic:
		if a.T.Sort == SStr {
			return SVal{app(SInt, "s.at", a.T, i.T), types.Typ[types.Byte]}
		}
	case *types.Array:
		return SVal{Select(a.T, i.T), t.Elem()}
	}
	if strings.HasPrefix(a.T.Sort, "(Array ") {
		return SVal{Select(a.T, i.T), nil}
	}
	e.fail("index of %s (type %v)", s.Args[0], a.GT)
	return SVal{}
}

func (e *SpecEnv) addrOf(s *SExpr) SVal {
	switch s.Kind {
	case "index":
		a := e.eval(s.Args[0])
		i := e.eval(s.Args[1])
		if t, ok := under(a.GT).(*types.Slice); ok {
			return SVal{Elem(a.T, i.T), types.NewPointer(t.Elem())}
		}
	}
	e.fail("cannot take address of %s", s)
	return SVal{}
}

func (e *SpecEnv) importedPkg(name string) *types.Package {
	if e.pkg != nil {
		var found *types.Package
		for _, p := range e.pkg.Imports() {
			if p.Name() == name {
				// several imports may share a name (stdlib errors under an alias and the
				// repository's errors package): the repository's one wins
				if found == nil || strings.HasPrefix(p.Path(), modulePath) {
					found = p
				}
			}
		}
		if found != nil {
			return found
		}
	}
	// well-known packages even when not imported by the package under contract
	if p := e.u.eng.pkgByName(name); p != nil {
		return p
	}
	return nil
}

// resolveType parses a type written in a quantifier or pure-function signature.
func (e *SpecEnv) resolveType(ts string) (types.Type, string) {
	w := e.u.W
	switch ts {
	case "int":
		return intT, SInt
	case "string":
		return stringT, SStr
	case "float64", "real":
		return floatT, SReal
	case "float32":
		return types.Typ[types.Float32], SReal
	case "uint32":
		return types.Typ[types.Uint32], SInt
	case "byte", "uint8":
		return types.Typ[types.Uint8], SInt
	case "rune", "int32":
		return types.Typ[types.Int32], SInt
	case "bool":
		return boolT, SBool
	case "int64":
		return types.Typ[types.Int64], SInt
	case "ptr":
		return nil, SPtr
	case "iface", "error", "any":
		return types.Universe.Lookup("error").Type(), SIface
	}
	if strings.HasPrefix(ts, "*") {
		t, _ := e.resolveType(ts[1:])
		if t == nil {
			return nil, SPtr
		}
		return types.NewPointer(t), SPtr
	}
	if strings.HasPrefix(ts, "[]") {
		t, _ := e.resolveType(ts[2:])
		if t == nil {
			return nil, SSlice
		}
		return types.NewSlice(t), SSlice
	}
	if strings.HasPrefix(ts, "map[") {
		depth := 0
		for i, c := range ts {
			if c == '[' {
				depth++
			}
			if c == ']' {
				depth--
				if depth == 0 {
					k, _ := e.resolveType(ts[4:i])
					v, _ := e.resolveType(ts[i+1:])
					return types.NewMap(k, v), SPtr
				}
			}
		}
	}
	pkg := e.pkg
	name := ts
	if i := strings.Index(ts, "."); i >= 0 {
		pkg = e.importedPkg(ts[:i])
		name = ts[i+1:]
	}
	if pkg != nil {
		if obj, ok := pkg.Scope().Lookup(name).(*types.TypeName); ok {
			return obj.Type(), w.SortOf(obj.Type())
		}
	}
	// spec-only sorts
	if ts == "seq" || ts == "Seq" || ts == "SpecSeq" {
		e.u.W.declare("SpecSeq", "(declare-sort SpecSeq 0)")
		return nil, "SpecSeq"
	}
	e.fail("unknown type %q", ts)
	return nil, ""
}

func (e *SpecEnv) call(s *SExpr) SVal {
	w := e.u.W
	fnx := s.Args[0]
	var args []SVal
	evalArgs := func() {
		for _, a := range s.Args[1:] {
			args = append(args, e.eval(a))
		}
	}
	if fnx.Kind == "ident" {
		switch fnx.Name {
		case "len":
			evalArgs()
			a := args[0]
			switch t := under(a.GT).(type) {
			case *types.Map:
				_, _, mc, _, _ := mapHeaps(w, t)
				return SVal{Select(e.cur.Heap(mc, ArraySort(SPtr, SInt)), a.T), intT}
			}
			switch a.T.Sort {
			case SSlice:
				return SVal{SlLen(a.T), intT}
			case SStr:
				return SVal{app(SInt, "s.len", a.T), intT}
			}
			e.fail("len of %s", s.Args[1])
		case "cap":
			evalArgs()
			return SVal{SlCap(args[0].T), intT}
		case "fresh":
			evalArgs()
			a := args[0]
			switch a.T.Sort {
			case SSlice:
				return SVal{Or(Ge(PBase(SlPtr(a.T)), e.x.alloc0), Eq(SlCap(a.T), IntLit(0))), boolT}
			case SPtr:
				return SVal{Ge(PBase(a.T), e.x.alloc0), boolT}
			}
			e.fail("fresh of %s", s.Args[1])
		case "allocated":
			// the pointer refers to an object allocated before the current state
			evalArgs()
			a := args[0]
			if a.T.Sort == SSlice {
				return SVal{Lt(PBase(SlPtr(a.T)), e.cur.alloc), boolT}
			}
			return SVal{And(Ge(PBase(a.T), IntLit(0)), Lt(PBase(a.T), e.cur.alloc)), boolT}
		case "base":
			evalArgs()
			a := args[0]
			if a.T.Sort == SSlice {
				return SVal{PBase(SlPtr(a.T)), intT}
			}
			return SVal{PBase(a.T), intT}
		case "offset":
			evalArgs()
			a := args[0]
			if a.T.Sort == SSlice {
				return SVal{PIdx(SlPtr(a.T)), intT}
			}
			return SVal{PIdx(a.T), intT}
		case "real":
			evalArgs()
			return SVal{ToReal(args[0].T), floatT}
		case "abs":
			evalArgs()
			a := args[0].T
			zero := IntLit(0)
			if a.Sort == SReal {
				zero = Term{"0.0", SReal}
			}
			return SVal{Ite(Ge(a, zero), a, app(a.Sort, "-", a)), args[0].GT}
		case "min", "max":
			evalArgs()
			a, b := args[0].T, args[1].T
			if fnx.Name == "min" {
				return SVal{Ite(Le(a, b), a, b), numT(args[0], args[1])}
			}
			return SVal{Ite(Ge(a, b), a, b), numT(args[0], args[1])}
		case "istype", "astype":
			// istype(e, *pkg.T): the dynamic type of interface value e is *pkg.T; astype: the value
			if len(s.Args) != 3 {
				e.fail("%s(e, T)", fnx.Name)
			}
			iv := e.eval(s.Args[1])
			ts := typeSyntax(s.Args[2])
			gt, _ := e.resolveType(ts)
			if gt == nil {
				e.fail("%s: unknown type %s", fnx.Name, ts)
			}
			if fnx.Name == "istype" {
				return SVal{Eq(app(SInt, "iface.tag", iv.T), w.TypeTag(gt)), boolT}
			}
			return SVal{w.UF("unbox."+typeKey(gt), w.SortOf(gt), iv.T), gt}
		case "errorsIs":
			evalArgs()
			e.u.usedPureUF["errors.Is"] = true
			return SVal{w.UF("errors.Is", SBool, args[0].T, args[1].T), boolT}
		case "box":
			// the interface value holding a (pointer) value of the argument's static type
			evalArgs()
			if args[0].GT == nil {
				e.fail("box of value with unknown type")
			}
			return SVal{w.UF("box."+typeKey(args[0].GT), SIface, args[0].T), types.Universe.Lookup("error").Type()}
		case "calls":
			// ghost: how many times the named contracted function was called on this path
			if len(s.Args) != 2 || s.Args[1].Kind != "str" {
				e.fail("calls(\"(*pkg.T).Method\") expects a string literal")
			}
			if e.callSite {
				return SVal{e.u.W.Fresh("callee.calls", SInt), intT}
			}
			if c, ok := e.cur.cells["calls:"+s.Args[1].Name].(Term); ok {
				return SVal{c, intT}
			}
			return SVal{IntLit(0), intT}
		case "mapdom", "mapval":
			evalArgs()
			a := args[0]
			mt, ok := under(a.GT).(*types.Map)
			if !ok {
				e.fail("%s of non-map %s", fnx.Name, s.Args[1])
			}
			md, mv, _, ks, vs := mapHeaps(w, mt)
			if fnx.Name == "mapdom" {
				return SVal{Select(e.cur.Heap(md, ArraySort(SPtr, ArraySort(ks, SBool))), a.T), nil}
			}
			return SVal{Select(e.cur.Heap(mv, ArraySort(SPtr, ArraySort(ks, vs))), a.T), nil}
		case "strlist":
			// abstract content of a []string in the current heap
			evalArgs()
			a := args[0]
			hn, hs := heapName(stringT), ArraySort(SPtr, SStr)
			w.declare("SpecSeq", "(declare-sort SpecSeq 0)")
			hp := e.cur.Heap(hn, hs)
			t := w.UF("strlist", "SpecSeq", a.T, hp)
			if !strings.Contains(t.S, "!q") && !strings.Contains(t.S, "hv!") && !strings.Contains(t.S, " a!") && !e.u.seqFacts[t.S] {
				// the abstraction has the length and the elements of the slice it abstracts
				if e.u.seqFacts == nil {
					e.u.seqFacts = map[string]bool{}
				}
				e.u.seqFacts[t.S] = true
				nt := e.u.NameTerm(t, "seq")
				e.u.AssumeRaw(Eq(w.UF("sq.len", SInt, nt), SlLen(a.T)))
				at := w.UF("sq.at", SStr, nt, Term{"i!sq", SInt})
				e.u.AssumeRaw(Term{fmt.Sprintf("(forall ((i!sq Int)) (! (=> (and (<= 0 i!sq) (< i!sq %s)) (= %s %s)) :pattern (%s)))", SlLen(a.T).S, at.S, Select(hp, Elem(a.T, Term{"i!sq", SInt})).S, at.S), SBool})
				return SVal{nt, nil}
			}
			return SVal{t, nil}
		case "holds":
			// holds(p): the mutex of the guarded object *p is held exclusively by the current call
			evalArgs()
			a := args[0]
			pt, ok := under(a.GT).(*types.Pointer)
			if !ok {
				e.fail("holds: argument is not a pointer")
			}
			named, ok := pt.Elem().(*types.Named)
			if !ok || named.Obj().Pkg() == nil || e.u.eng.cs.Guards[named.Obj().Pkg().Path()+"."+named.Obj().Name()] == nil {
				e.fail("holds: %s is not a guarded type", pt.Elem())
			}
			key := "lock:" + (&Loc{Kind: "heap", Ptr: a.T, Root: pt.Elem(), Path: []PathElem{{Field: 0}}}).String()
			if held, ok := e.cur.cells[key].(Term); ok {
				return SVal{Eq(held, IntLit(2)), boolT}
			}
			if e.x != nil && e.cur == e.x.entry {
				// a precondition: the lock state at entry is a symbolic value
				held := w.Const("held."+sanitize(key), SInt)
				e.u.AssumeRaw(And(Ge(held, IntLit(0)), Le(held, IntLit(2))))
				e.cur.cells[key] = held
				e.u.lockKeys[key] = true
				return SVal{Eq(held, IntLit(2)), boolT}
			}
			return SVal{TFalse, boolT}
		case "atloop":
			// atloop(N, expr): expr evaluated in the state in which loop N of this function was
			// entered (before its first iteration); locals included
			if len(s.Args) != 3 || s.Args[1].Kind != "int" {
				e.fail("atloop wants (loop number, expression)")
			}
			var n int
			fmt.Sscanf(s.Args[1].Name, "%d", &n)
			if e.x == nil || e.x.loopEntry == nil || e.x.loopEntry[n] == nil {
				e.fail("atloop: unknown identifier loop %d (not entered yet at this point)", n)
			}
			ne := *e
			ne.cur = e.x.loopEntry[n]
			return ne.eval(s.Args[2])
		case "seqlen":
			evalArgs()
			return SVal{w.UF("sq.len", SInt, args[0].T), intT}
		case "seqat":
			evalArgs()
			return SVal{w.UF("sq.at", SStr, args[0].T, args[1].T), stringT}
		case "now":
			// ghost clock (nanoseconds); the value at function entry is a constant
			if c, ok := e.cur.cells["ghost.now"].(Term); ok {
				return SVal{c, intT}
			}
			n0 := w.Const("now@0", SInt)
			e.cur.cells["ghost.now"] = n0
			if e.x != nil && e.x.entry != nil {
				if _, ok := e.x.entry.cells["ghost.now"]; !ok {
					e.x.entry.cells["ghost.now"] = n0
				}
			}
			return SVal{n0, intT}
		case "ns":
			evalArgs()
			return SVal{w.UF("time.ns", SInt, args[0].T), intT}
		case "tag":
			evalArgs()
			return SVal{app(SInt, "iface.tag", args[0].T), intT}
		case "held":
			// held(mu-expression-text): lock ghost
			e.fail("held() not supported here")
		}
		if gd, ok := e.u.eng.cs.Ghosts[fnx.Name]; ok && !e.isBound(fnx.Name) {
			evalArgs()
			if len(args) != len(gd.Params) {
				e.fail("ghost %s: %d arguments, want %d", gd.Name, len(args), len(gd.Params))
			}
			h, gt := e.ghostHeap(gd)
			t := h
			for _, a := range args {
				t = Select(t, a.T)
			}
			return SVal{t, gt}
		}
		if !e.isBound(fnx.Name) {
			if pf, ok := e.u.eng.cs.Pures[fnx.Name]; ok {
				evalArgs()
				return e.applyPure(pf, args)
			}
			// Go function of the package under contract
			if e.pkg != nil {
				if f, ok := e.pkg.Scope().Lookup(fnx.Name).(*types.Func); ok {
					evalArgs()
					return e.goFuncUF(f, args)
				}
			}
		}
		e.fail("unknown function %s", fnx.Name)
	}
	if fnx.Kind == "field" {
		// pkg.Func(...) or recv.Method(...)
		if id := fnx.Args[0]; id.Kind == "ident" {
			if !e.isBound(id.Name) {
				if p := e.importedPkg(id.Name); p != nil {
					if pf, ok := e.u.eng.cs.Pures[fnx.Name]; ok && pf.Pkg == p.Path() {
						evalArgs()
						return e.applyPure(pf, args)
					}
					if id.Name == "strings" && fnx.Name == "Map" && len(s.Args) == 3 && s.Args[1].Kind == "ident" {
						sv := e.eval(s.Args[2])
						e.u.usedPureUF["strings.Map$"+s.Args[1].Name] = true
						return SVal{w.UF("strings.Map$"+s.Args[1].Name, SStr, sv.T), stringT}
					}
					evalArgs()
					if f, ok := p.Scope().Lookup(fnx.Name).(*types.Func); ok {
						return e.goFuncUF(f, args)
					}
					e.fail("unknown function %s.%s", id.Name, fnx.Name)
				}
			}
		}
		recv := e.eval(fnx.Args[0])
		if recv.GT == nil {
			e.fail("method call on value of unknown type: %s", s)
		}
		obj, _, _ := types.LookupFieldOrMethod(recv.GT, true, e.pkg, fnx.Name)
		f, ok := obj.(*types.Func)
		if !ok {
			e.fail("no method %s on %s", fnx.Name, recv.GT)
		}
		evalArgs()
		return e.goFuncUF(f, append([]SVal{recv}, args...))
	}
	e.fail("cannot call %s", fnx)
	return SVal{}
}

// goFuncUF: application of a Go function as an uninterpreted function (same symbol as the
// executor uses for pure calls).
func (e *SpecEnv) goFuncUF(f *types.Func, args []SVal) SVal {
	w := e.u.W
	full := f.FullName()
	sig := f.Type().(*types.Signature)
	if sig.Results().Len() != 1 {
		e.fail("spec call of %s: exactly one result required", full)
	}
	var ts []Term
	for i, a := range args {
		t := a.T
		// coerce ints to reals where the parameter is float
		pi := i
		if sig.Recv() != nil {
			pi = i - 1
		}
		if pi >= 0 && pi < sig.Params().Len() && isFloat(sig.Params().At(pi).Type()) {
			t = ToReal(t)
		}
		ts = append(ts, t)
	}
	rt := sig.Results().At(0).Type()
	// exact models of a few library functions
	switch full {
	case "math.Abs":
		a := ts[0]
		return SVal{Ite(Ge(a, Term{"0.0", SReal}), a, app(SReal, "-", a)), rt}
	}
	e.u.usedPureUF[full] = true
	return SVal{w.UF(full, w.SortOf(rt), ts...), rt}
}

func (e *SpecEnv) applyPure(pf *PureFunc, args []SVal) SVal {
	if len(args) != len(pf.Params) {
		e.fail("pure func %s: %d arguments, want %d", pf.Name, len(args), len(pf.Params))
	}
	pe := *e
	if p := e.u.eng.typesPkgFor(pf.Pkg); p != nil {
		pe.pkg = p
	}
	if pf.Opaque {
		return e.applyOpaque(pf, &pe, args)
	}
	if pf.Body == nil {
		var ts []Term
		for i, a := range args {
			sort := a.T.Sort
			if pf.Params[i].Type != "_" {
				_, sort = pe.resolveType(pf.Params[i].Type)
			}
			t := a.T
			if sort == SReal {
				t = ToReal(t)
			}
			ts = append(ts, t)
		}
		gt, sort := pe.resolveType(pf.Ret)
		return SVal{e.u.W.UF("spec."+pf.Name, sort, ts...), gt}
	}
	if e.depth > 12 {
		e.fail("pure func expansion too deep (recursive definition?) at %s", pf.Name)
	}
	vars := map[string]SVal{}
	for i, p := range pf.Params {
		a := args[i]
		if p.Type == "_" {
			vars[p.Name] = a
			continue
		}
		gt, sort := pe.resolveType(p.Type)
		if gt != nil && (a.GT == nil || isUntypedNil(a.GT)) {
			a.GT = gt
		}
		if sort == SReal {
			a.T = ToReal(a.T)
		}
		vars[p.Name] = a
	}
	n := pe.with(nil)
	// pure function bodies see only their parameters (plus heaps)
	n.bound = vars
	n.vars = map[string]SVal{}
	n.locals = false
	n.depth = e.depth + 1
	return n.eval(pf.Body)
}

// opaqueDef: an opaque spec function f(params) = body is the uninterpreted function
// spec.f(params, heaps read by body) together with its definition, quantified over parameters and
// heaps (the usual heap-parametrised encoding of heap-dependent specification functions).
type opaqueDef struct {
	name  string
	heaps [][2]string // name, sort
	sorts []string
	ret   string
	gt    types.Type
	// building: the defining axiom is being generated. A recursive application met meanwhile is
	// written with a placeholder for the heap arguments (they are known only once the whole body
	// has been evaluated) which is replaced by the axiom's own heap variables afterwards.
	building bool
}

func (e *SpecEnv) applyOpaque(pf *PureFunc, pe *SpecEnv, args []SVal) SVal {
	u := e.u
	if u.opaqueDefs == nil {
		u.opaqueDefs = map[string]*opaqueDef{}
	}
	key := pf.Pkg + "::" + pf.Name
	def := u.opaqueDefs[key]
	if def == nil {
		def = &opaqueDef{name: "spec." + sanitize(pf.Name), building: true}
		u.opaqueDefs[key] = def
		sym := &State{cells: map[interface{}]Value{}, heaps: map[string]Term{}, gen: &Gen{kind: "sym"}, u: u}
		sym.alloc = Term{"alloc!sym", SInt}
		vars := map[string]SVal{}
		var decls, names []string
		for i, p := range pf.Params {
			if p.Type == "_" {
				e.fail("opaque func %s: polymorphic parameter", pf.Name)
			}
			gt, sort := pe.resolveType(p.Type)
			v := Term{fmt.Sprintf("a!%d", i), sort}
			vars[p.Name] = SVal{v, gt}
			decls = append(decls, fmt.Sprintf("(%s %s)", v.S, sort))
			names = append(names, v.S)
			def.sorts = append(def.sorts, sort)
		}
		n := pe.with(nil)
		n.bound = vars
		n.vars = map[string]SVal{}
		n.locals = false
		n.depth = e.depth + 1
		n.noAlts = true
		n.cur, n.old = sym, sym
		def.gt, def.ret = pe.resolveType(pf.Ret)
		body := n.eval(pf.Body)
		if strings.Contains(body.T.S, "alloc!sym") {
			e.fail("opaque func %s depends on the allocation counter", pf.Name)
		}
		if def.ret == SReal {
			body.T = ToReal(body.T)
		}
		def.heaps = sym.symOrder
		def.building = false
		var hs, hvs []string
		for _, h := range def.heaps {
			hv := "hv!" + sanitize(h[0])
			decls = append(decls, fmt.Sprintf("(%s %s)", hv, h[1]))
			names = append(names, hv)
			hvs = append(hvs, hv)
			hs = append(hs, h[1])
		}
		if ph := " @@OPQH:" + def.name + "@@"; strings.Contains(body.T.S, ph) {
			rep := ""
			if len(hvs) > 0 {
				rep = " " + strings.Join(hvs, " ")
			}
			body.T.S = strings.ReplaceAll(body.T.S, ph, rep)
		}
		u.W.declare(def.name, fmt.Sprintf("(declare-fun %s (%s) %s)", def.name, strings.Join(append(append([]string{}, def.sorts...), hs...), " "), def.ret))
		appl := def.name
		if len(names) > 0 {
			appl = "(" + def.name + " " + strings.Join(names, " ") + ")"
			u.AssumeRaw(Term{fmt.Sprintf("(forall (%s) (! (= %s %s) :pattern (%s)))", strings.Join(decls, " "), appl, body.T.S, appl), SBool})
		} else {
			u.AssumeRaw(Term{fmt.Sprintf("(= %s %s)", appl, body.T.S), SBool})
		}
	}
	if len(args) != len(def.sorts) {
		e.fail("opaque func %s: %d arguments, want %d", pf.Name, len(args), len(def.sorts))
	}
	var ts []Term
	for i, a := range args {
		t := a.T
		if def.sorts[i] == SReal {
			t = ToReal(t)
		}
		ts = append(ts, t)
	}
	if def.building {
		// recursive application inside the definition (evaluated in the axiom's symbolic state)
		ts = append(ts, Term{"@@OPQH:" + def.name + "@@", ""})
		return SVal{app(def.ret, def.name, ts...), def.gt}
	}
	for _, h := range def.heaps {
		ts = append(ts, e.cur.Heap(h[0], h[1]))
	}
	if len(ts) == 0 {
		return SVal{Term{def.name, def.ret}, def.gt}
	}
	return SVal{app(def.ret, def.name, ts...), def.gt}
}

func isUntypedNil(t types.Type) bool {
	b, ok := t.(*types.Basic)
	return ok && b.Kind() == types.UntypedNil
}

// frameItem turns one item of a modifies clause into frame predicates.
func (e *SpecEnv) frameItem(item string) (res []FrameItem, err error) {
	defer func() {
		if r := recover(); r != nil {
			if se, ok := r.(specErr); ok {
				err = fmt.Errorf("%s", string(se))
				return
			}
			if ea, ok := r.(execAbort); ok {
				err = fmt.Errorf("%s", ea.msg)
				return
			}
			panic(r)
		}
	}()
	w := e.u.W
	switch {
	case strings.HasSuffix(item, "[*]"):
		ex, perr := ParseSpecExpr(strings.TrimSuffix(item, "[*]"))
		if perr != nil {
			return nil, perr
		}
		v := e.eval(ex)
		switch t := under(v.GT).(type) {
		case *types.Slice:
			s := v.T
			return []FrameItem{{heap: heapName(t.Elem()), text: item, pred: func(p Term) Term {
				return And(Eq(PBase(p), PBase(SlPtr(s))), Ge(PIdx(p), PIdx(SlPtr(s))), Lt(PIdx(p), Add(PIdx(SlPtr(s)), SlCap(s))))
			}}}, nil
		case *types.Map:
			md, mv, mc, _, _ := mapHeaps(w, t)
			m := v.T
			pred := func(p Term) Term { return And(Eq(p, m), Not(Eq(p, TNil))) }
			return []FrameItem{{md, pred, item}, {mv, pred, item}, {mc, pred, item}}, nil
		}
		return nil, fmt.Errorf("modifies %s: not a slice or map", item)
	case strings.HasSuffix(item, ".*"):
		ex, perr := ParseSpecExpr(strings.TrimSuffix(item, ".*"))
		if perr != nil {
			return nil, perr
		}
		v := e.eval(ex)
		pt, ok := under(v.GT).(*types.Pointer)
		if !ok {
			return nil, fmt.Errorf("modifies %s: not a pointer", item)
		}
		ptr := v.T
		return []FrameItem{{heap: heapName(pt.Elem()), text: item, pred: func(p Term) Term { return And(Eq(p, ptr), Not(Eq(p, TNil))) }}}, nil
	case strings.HasPrefix(item, "ghost(") && strings.HasSuffix(item, ")"):
		gd, ok := e.u.eng.cs.Ghosts[item[6:len(item)-1]]
		if !ok {
			return nil, fmt.Errorf("modifies %s: unknown ghost", item)
		}
		return []FrameItem{{heap: "G." + gd.Name, text: item, pred: func(p Term) Term { return TTrue }}}, nil
	case strings.HasPrefix(item, "heap(") && strings.HasSuffix(item, ")"):
		gt, _ := e.resolveType(item[5 : len(item)-1])
		if gt == nil {
			return nil, fmt.Errorf("modifies %s: unknown type", item)
		}
		if mt, ok := gt.Underlying().(*types.Map); ok {
			md, mv, mc, _, _ := mapHeaps(w, mt)
			pred := func(p Term) Term { return TTrue }
			return []FrameItem{{md, pred, item}, {mv, pred, item}, {mc, pred, item}}, nil
		}
		return []FrameItem{{heap: heapName(gt), text: item, pred: func(p Term) Term { return TTrue }}}, nil
	}
	return nil, fmt.Errorf("modifies item %q: expected e.*, e[*] or heap(T)", item)
}

// typeSyntax renders a spec expression that denotes a type (*pkg.T, pkg.T, T) as type syntax.
func typeSyntax(s *SExpr) string {
	switch s.Kind {
	case "ident":
		return s.Name
	case "field":
		return typeSyntax(s.Args[0]) + "." + s.Name
	case "un":
		if s.Op == "*" {
			return "*" + typeSyntax(s.Args[0])
		}
	}
	return "?"
}

// ghostHeap: the current value of a declared ghost map (nested arrays keyed by its parameters).
func (e *SpecEnv) ghostHeap(gd *GhostDecl) (Term, types.Type) {
	pe := *e
	if p := e.u.eng.typesPkgFor(gd.Pkg); p != nil {
		pe.pkg = p
	}
	gt, vs := pe.resolveType(gd.Ret)
	sort := vs
	for i := len(gd.Params) - 1; i >= 0; i-- {
		_, ks := pe.resolveType(gd.Params[i].Type)
		sort = ArraySort(ks, sort)
	}
	return e.cur.Heap("G."+gd.Name, sort), gt
}
