package main

import (
	"fmt"
	"go/token"
	"go/types"
	"sort"
	"strings"

	"golang.org/x/tools/go/ssa"
)

// Read frames on a struct parameter: which of its fields a function (and the callees it hands
// the whole struct to) may inspect. A sound syntactic over-approximation on the SSA.

type readSite struct {
	fn    *ssa.Function
	instr ssa.Instruction
	field string
	via   string // callee through which the read happens ("" = direct)
	leaf  *ssa.Function // function in which the field is actually read
}

// paramFieldReads: read sites of the fields of parameter pidx of fn (struct passed by value).
func (e *Engine) paramFieldReads(fn *ssa.Function, pidx int, seen map[string]bool, depth int) []readSite {
	key := fmt.Sprintf("%s#%d", fn.String(), pidx)
	if seen[key] || fn.Blocks == nil || depth > 12 {
		return nil
	}
	seen[key] = true
	if pidx >= len(fn.Params) {
		return nil
	}
	p := fn.Params[pidx]
	st := structOf(p.Type())
	if st == nil {
		return nil
	}
	// values that hold (a copy of) the parameter, and addresses of cells holding it
	holds := map[ssa.Value]bool{p: true}
	cells := map[ssa.Value]bool{}
	changed := true
	for changed {
		changed = false
		for _, b := range fn.Blocks {
			for _, in := range b.Instrs {
				switch in := in.(type) {
				case *ssa.Store:
					if holds[in.Val] && !cells[in.Addr] {
						if _, ok := in.Addr.(*ssa.Alloc); ok {
							cells[in.Addr] = true
							changed = true
						}
					}
				case *ssa.UnOp:
					if in.Op == token.MUL && cells[in.X] && !holds[in] {
						holds[in] = true
						changed = true
					}
				}
			}
		}
	}
	var out []readSite
	for _, b := range fn.Blocks {
		for _, in := range b.Instrs {
			switch in := in.(type) {
			case *ssa.FieldAddr:
				if cells[in.X] {
					// a load (not a store) through this address is a read
					isRead := false
					for _, r := range *in.Referrers() {
						if u, ok := r.(*ssa.UnOp); ok && u.Op == token.MUL {
							isRead = true
						}
						if _, ok := r.(*ssa.Store); !ok {
							if _, ok := r.(*ssa.UnOp); !ok {
								isRead = true // address escapes: treat as read
							}
						}
					}
					if isRead {
						out = append(out, readSite{fn, in, st.Field(in.Field).Name(), "", fn})
					}
				}
			case *ssa.Field:
				if holds[in.X] {
					out = append(out, readSite{fn, in, st.Field(in.Field).Name(), "", fn})
				}
			case ssa.CallInstruction:
				c := in.Common()
				callee := c.StaticCallee()
				for ai, a := range c.Args {
					if !holds[a] {
						continue
					}
					if callee == nil || callee.Blocks == nil || !e.inRepo(callee) {
						// handed to unknown code: every field may be read
						for i := 0; i < st.NumFields(); i++ {
							out = append(out, readSite{fn, in, st.Field(i).Name(), "unknown callee", nil})
						}
						continue
					}
					for _, r := range e.paramFieldReads(callee, ai, seen, depth+1) {
						out = append(out, readSite{fn, in, r.field, callee.String(), r.leaf})
					}
				}
			case *ssa.MakeInterface:
				if holds[in.X] {
					for i := 0; i < st.NumFields(); i++ {
						out = append(out, readSite{fn, in, st.Field(i).Name(), "boxed", nil})
					}
				}
			}
		}
	}
	return out
}

func paramIndex(fn *ssa.Function, name string) int {
	for i, p := range fn.Params {
		if p.Name() == name {
			return i
		}
	}
	return -1
}

func init() {
	// field-read: each listed field of the struct parameter is read somewhere in the call tree.
	staticKinds["field-read"] = func(eng *Engine, id string, s StaticSpec) ([]*StaticResult, []string) {
		fn, _, err := eng.LookupFunc(s.Args["func"])
		if err != nil {
			return nil, []string{err.Error()}
		}
		pi := paramIndex(fn, s.Args["param"])
		if pi < 0 {
			return nil, []string{fmt.Sprintf("field-read: %s has no parameter %s", fn, s.Args["param"])}
		}
		reads := eng.paramFieldReads(fn, pi, map[string]bool{}, 0)
		got := map[string]bool{}
		for _, r := range reads {
			got[r.field] = true
		}
		st := structOf(fn.Params[pi].Type())
		var out []*StaticResult
		for _, f := range splitList(s.Args["fields"]) {
			found := false
			for i := 0; i < st.NumFields(); i++ {
				if st.Field(i).Name() == f {
					found = true
				}
			}
			if !found {
				return nil, []string{fmt.Sprintf("field-read: %s has no field %s", fn.Params[pi].Type(), f)}
			}
			r := &StaticResult{Name: fmt.Sprintf("reads %s / %s.%s is consulted", fnDisplayName(fn), s.Args["param"], f), Kind: "field-read",
				Text: fmt.Sprintf("%s.%s takes part in the computation of %s (%s)", s.Args["param"], f, fnDisplayName(fn), s.Args["why"]), OK: got[f]}
			if !got[f] {
				r.Detail = fmt.Sprintf("no function in the call tree of %s reads %s.%s: the option cannot influence the result", fnDisplayName(fn), s.Args["param"], f)
			}
			out = append(out, r)
		}
		return out, nil
	}
	// field-read-only-in: every read of the field (direct or through a callee) happens in one of
	// the listed functions - nothing else in the call tree can be influenced by it.
	staticKinds["field-read-only-in"] = func(eng *Engine, id string, s StaticSpec) ([]*StaticResult, []string) {
		fn, _, err := eng.LookupFunc(s.Args["func"])
		if err != nil {
			return nil, []string{err.Error()}
		}
		pi := paramIndex(fn, s.Args["param"])
		if pi < 0 {
			return nil, []string{fmt.Sprintf("field-read-only-in: %s has no parameter %s", fn, s.Args["param"])}
		}
		allowed := map[string]bool{}
		for _, a := range s.List {
			af, _, err := eng.LookupFunc(a)
			if err != nil {
				return nil, []string{err.Error()}
			}
			allowed[af.String()] = true
		}
		f := s.Args["field"]
		var bad []string
		n := 0
		for _, r := range eng.paramFieldReads(fn, pi, map[string]bool{}, 0) {
			if r.field != f {
				continue
			}
			n++
			if r.leaf == nil || !allowed[r.leaf.String()] {
				where := r.via
				if r.leaf != nil {
					where = fnDisplayName(r.leaf)
				}
				bad = append(bad, fmt.Sprintf("%s (reached from %s at %s)", where, fnDisplayName(r.fn), shortPos(eng.fset.Position(r.instr.Pos()).String())))
			}
		}
		sort.Strings(bad)
		r := &StaticResult{Name: fmt.Sprintf("reads %s / %s.%s is consulted only by %s", fnDisplayName(fn), s.Args["param"], f, s.Args["why_short"]), Kind: "field-read-only-in",
			Text: fmt.Sprintf("in the call tree of %s, %s.%s is read only in %v (%d read sites): %s", fnDisplayName(fn), s.Args["param"], f, s.List, n, s.Args["why"]), OK: len(bad) == 0 && n > 0}
		if len(bad) > 0 {
			r.Detail = "also read by " + strings.Join(bad, "; ")
		} else if n == 0 {
			r.Detail = "the field is not read at all"
		}
		return []*StaticResult{r}, nil
	}
	// guarded-read: every read of the listed fields (direct or through a callee) sits in a block
	// that is only reached through the true branch of a test `len(x) == 0`.
	staticKinds["guarded-read"] = func(eng *Engine, id string, s StaticSpec) ([]*StaticResult, []string) {
		fn, _, err := eng.LookupFunc(s.Args["func"])
		if err != nil {
			return nil, []string{err.Error()}
		}
		pi := paramIndex(fn, s.Args["param"])
		if pi < 0 {
			return nil, []string{fmt.Sprintf("guarded-read: %s has no parameter %s", fn, s.Args["param"])}
		}
		want := map[string]bool{}
		for _, f := range splitList(s.Args["fields"]) {
			want[f] = true
		}
		reads := eng.paramFieldReads(fn, pi, map[string]bool{}, 0)
		var bad []string
		n := 0
		for _, r := range reads {
			if !want[r.field] {
				continue
			}
			n++
			if !guardedByEmptyTest(r.instr.Block()) {
				via := ""
				if r.via != "" {
					via = " (through " + r.via + ")"
				}
				bad = append(bad, fmt.Sprintf("%s.%s read at %s%s outside any `len(x) == 0` branch", s.Args["param"], r.field, shortPos(eng.fset.Position(r.instr.Pos()).String()), via))
			}
		}
		sort.Strings(bad)
		res := &StaticResult{Name: fmt.Sprintf("reads %s / %s.{%s} only consulted when nothing matched", fnDisplayName(fn), s.Args["param"], s.Args["fields"]), Kind: "guarded-read",
			Text: fmt.Sprintf("%s (%d read sites)", s.Args["why"], n), OK: len(bad) == 0 && n > 0}
		if n == 0 {
			res.Detail = "the fields are never read"
		} else if len(bad) > 0 {
			res.Detail = strings.Join(bad, "; ")
		}
		return []*StaticResult{res}, nil
	}
}

// guardedByEmptyTest: block b is dominated by the true successor of an `if len(x) == 0`.
func guardedByEmptyTest(b *ssa.BasicBlock) bool {
	for d := b; d != nil; d = d.Idom() {
		id := d.Idom()
		if id == nil {
			break
		}
		ifi, ok := id.Instrs[len(id.Instrs)-1].(*ssa.If)
		if !ok {
			continue
		}
		if id.Succs[0] != d || len(d.Preds) != 1 {
			continue
		}
		if isLenZeroTest(ifi.Cond) {
			return true
		}
	}
	return false
}

func isLenZeroTest(v ssa.Value) bool {
	bo, ok := v.(*ssa.BinOp)
	if !ok || bo.Op != token.EQL {
		return false
	}
	isLen := func(x ssa.Value) bool {
		c, ok := x.(*ssa.Call)
		if !ok {
			return false
		}
		bi, ok := c.Call.Value.(*ssa.Builtin)
		return ok && bi.Name() == "len"
	}
	isZero := func(x ssa.Value) bool {
		c, ok := x.(*ssa.Const)
		return ok && c.Value != nil && c.Value.ExactString() == "0" && types.Identical(c.Type().Underlying(), types.Typ[types.Int])
	}
	return (isLen(bo.X) && isZero(bo.Y)) || (isLen(bo.Y) && isZero(bo.X))
}

func init() {
	// key-complete: every field of the options that the search engine reads is read by each
	// projection that builds the cache key from the options (so requests that differ in anything
	// that can change the answer never share a key).
	staticKinds["key-complete"] = func(eng *Engine, id string, s StaticSpec) ([]*StaticResult, []string) {
		fn, _, err := eng.LookupFunc(s.Args["search"])
		if err != nil {
			return nil, []string{err.Error()}
		}
		pi := paramIndex(fn, s.Args["param"])
		if pi < 0 {
			return nil, []string{fmt.Sprintf("key-complete: %s has no parameter %s", fn, s.Args["param"])}
		}
		needed := map[string]bool{}
		for _, r := range eng.paramFieldReads(fn, pi, map[string]bool{}, 0) {
			needed[r.field] = true
		}
		if len(needed) == 0 {
			return nil, []string{"key-complete: the search function reads no option field"}
		}
		var out []*StaticResult
		for _, pn := range s.List {
			pf, _, err := eng.LookupFunc(pn)
			if err != nil {
				return nil, []string{err.Error()}
			}
			ppi := paramIndex(pf, s.Args["param"])
			if ppi < 0 {
				return nil, []string{fmt.Sprintf("key-complete: %s has no parameter %s", pf, s.Args["param"])}
			}
			keyT := eng.typesPkgFor(modulePath + "/internal/cache").Scope().Lookup("SearchOptions").Type()
			direct := eng.keyFlow(pf, ppi, keyT, 0)
			var missing []string
			for f := range needed {
				if !direct[f] {
					missing = append(missing, f)
				}
			}
			sort.Strings(missing)
			r := &StaticResult{Name: fmt.Sprintf("key-complete %s / options", fnDisplayName(pf)), Kind: "key-complete",
				Text: fmt.Sprintf("every option field read by %s (%s) is carried into the cache key by %s", fnDisplayName(fn), strings.Join(keys(needed), ", "), fnDisplayName(pf)), OK: len(missing) == 0}
			if len(missing) > 0 {
				r.Detail = "read by the engine but not carried faithfully (on every path, unmodified) into the key: " + strings.Join(missing, ", ")
			}
			out = append(out, r)
		}
		return out, nil
	}
}

func init() {
	// callers-only: the function is called (statically) from the listed functions only.
	staticKinds["callers-only"] = func(eng *Engine, id string, s StaticSpec) ([]*StaticResult, []string) {
		target, _, err := eng.LookupFunc(s.Args["func"])
		if err != nil {
			return nil, []string{err.Error()}
		}
		allowed := map[*ssa.Function]bool{}
		for _, n := range s.List {
			fn, _, err := eng.LookupFunc(n)
			if err != nil {
				return nil, []string{err.Error()}
			}
			allowed[fn] = true
		}
		var bad []string
		n := 0
		for _, fn := range eng.fnIndex {
			if !eng.inRepo(fn) || fn.Blocks == nil {
				continue
			}
			pk, _ := fnKey(fn)
			if strings.Contains(pk, "/testutil") {
				continue
			}
			for _, b := range fn.Blocks {
				for _, in := range b.Instrs {
					c, ok := in.(ssa.CallInstruction)
					if !ok {
						continue
					}
					callee := c.Common().StaticCallee()
					if callee == nil || (callee != target && callee.Origin() != target) {
						continue
					}
					n++
					root := fn
					for root.Parent() != nil {
						root = root.Parent()
					}
					if !allowed[fn] && !allowed[root] {
						bad = append(bad, fmt.Sprintf("%s calls it at %s", fnDisplayName(fn), shortPos(eng.fset.Position(in.Pos()).String())))
					}
				}
			}
		}
		sort.Strings(bad)
		r := &StaticResult{Name: fmt.Sprintf("callers %s / only %s", fnDisplayName(target), s.Args["why_short"]), Kind: "callers-only",
			Text: fmt.Sprintf("%s (%d call sites; allowed callers: %s)", s.Args["why"], n, strings.Join(s.List, ", ")), OK: len(bad) == 0}
		if len(bad) > 0 {
			r.Detail = strings.Join(bad, "; ")
		}
		return []*StaticResult{r}, nil
	}
}

// keyFlow: which fields of the options parameter flow faithfully — on every path, unmodified —
// into a struct of the key type built by fn (directly or through a helper that builds it).
// A field of the key struct that is stored more than once (a conditional override) or from
// anything but the plain option field does not count.
func (e *Engine) keyFlow(fn *ssa.Function, pidx int, keyType types.Type, depth int) map[string]bool {
	out := map[string]bool{}
	if fn.Blocks == nil || depth > 4 || pidx >= len(fn.Params) {
		return out
	}
	p := fn.Params[pidx]
	ost := structOf(p.Type())
	kst := structOf(keyType)
	if ost == nil || kst == nil {
		return out
	}
	// cells holding the options
	optCells := map[ssa.Value]bool{}
	for _, b := range fn.Blocks {
		for _, in := range b.Instrs {
			if st, ok := in.(*ssa.Store); ok && st.Val == ssa.Value(p) {
				optCells[st.Addr] = true
			}
		}
	}
	optField := func(v ssa.Value) (string, bool) {
		switch x := v.(type) {
		case *ssa.UnOp:
			if x.Op == token.MUL {
				if fa, ok := x.X.(*ssa.FieldAddr); ok && optCells[fa.X] {
					return ost.Field(fa.Field).Name(), true
				}
			}
		case *ssa.Field:
			if x.X == ssa.Value(p) {
				return ost.Field(x.Field).Name(), true
			}
			if u, ok := x.X.(*ssa.UnOp); ok && u.Op == token.MUL && optCells[u.X] {
				return ost.Field(x.Field).Name(), true
			}
		}
		return "", false
	}
	// per key-struct alloc: field index -> option field ("" = tainted)
	type fmap map[int]string
	allocMap := map[*ssa.Alloc]fmap{}
	var mapOf func(a *ssa.Alloc, d int) fmap
	mapOf = func(a *ssa.Alloc, d int) fmap {
		if m, ok := allocMap[a]; ok {
			return m
		}
		m := fmap{}
		allocMap[a] = m
		if d > 4 {
			return m
		}
		whole := 0
		for _, r := range *a.Referrers() {
			switch r := r.(type) {
			case *ssa.FieldAddr:
				for _, r2 := range *r.Referrers() {
					if st, ok := r2.(*ssa.Store); ok && st.Addr == ssa.Value(r) {
						if of, ok := optField(st.Val); ok {
							if prev, seen := m[r.Field]; seen && prev != of {
								m[r.Field] = ""
							} else if !seen {
								m[r.Field] = of
							} else {
								m[r.Field] = "" // stored twice
							}
						} else {
							m[r.Field] = ""
						}
					}
				}
			case *ssa.Store:
				if r.Addr != ssa.Value(a) {
					continue
				}
				whole++
				var src fmap
				switch v := r.Val.(type) {
				case *ssa.UnOp:
					if v.Op == token.MUL {
						if a2, ok := v.X.(*ssa.Alloc); ok {
							src = mapOf(a2, d+1)
						}
					}
				case *ssa.Call:
					if callee := v.Call.StaticCallee(); callee != nil && e.inRepo(callee) {
						for ai, arg := range v.Call.Args {
							isOpt := arg == ssa.Value(p)
							if u, ok := arg.(*ssa.UnOp); ok && u.Op == token.MUL && optCells[u.X] {
								isOpt = true
							}
							if isOpt {
								sub := e.keyFlow(callee, ai, keyType, depth+1)
								src = fmap{}
								for i := 0; i < kst.NumFields(); i++ {
									// the helper reports option-field names; map them back by equal names
									for f := range sub {
										if kst.Field(i).Name() == f {
											src[i] = f
										}
									}
								}
							}
						}
					}
				}
				for i, f := range src {
					if prev, seen := m[i]; seen && prev != f {
						m[i] = ""
					} else {
						m[i] = f
					}
				}
			}
		}
		if whole > 1 {
			for i := range m {
				m[i] = ""
			}
		}
		return m
	}
	// key structs that reach a cache call or are returned
	consider := func(v ssa.Value) {
		if u, ok := v.(*ssa.UnOp); ok && u.Op == token.MUL {
			if a, ok := u.X.(*ssa.Alloc); ok && types.Identical(a.Type().Underlying().(*types.Pointer).Elem(), keyType) {
				for i, f := range mapOf(a, 0) {
					_ = i
					if f != "" {
						out[f] = true
					}
				}
			}
		}
	}
	first := true
	merge := func(v ssa.Value) {
		before := out
		out = map[string]bool{}
		consider(v)
		if first {
			first = false
			return
		}
		// every use must carry the field
		for f := range out {
			if !before[f] {
				delete(out, f)
			}
		}
	}
	for _, b := range fn.Blocks {
		for _, in := range b.Instrs {
			switch in := in.(type) {
			case *ssa.Return:
				for _, r := range in.Results {
					if types.Identical(r.Type(), keyType) {
						merge(r)
					}
				}
			case ssa.CallInstruction:
				for _, a := range in.Common().Args {
					if types.Identical(a.Type(), keyType) {
						if callee := in.Common().StaticCallee(); callee != nil && strings.Contains(callee.String(), "SearchCache") {
							merge(a)
						}
					}
				}
			}
		}
	}
	return out
}
