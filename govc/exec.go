package main

import (
	"regexp"
	"fmt"
	"go/token"
	"go/types"
	"sort"
	"strings"

	"golang.org/x/tools/go/ssa"
)

type execAbort struct{ msg string }

// Exec is one activation of a function being executed symbolically.
type Exec struct {
	loopEntry map[int]*State // state on entry to loop N (before its first iteration)
	atomicOp      bool // inside a sync/atomic intrinsic: the write needs no lock
	hintSkipped   map[*Hint]error
	hintUsed      map[*Hint]bool
	u             *Unit
	fn            *ssa.Function
	regs          map[ssa.Value]Value
	depth         int
	top           bool
	fc            *FuncContract
	entry         *State // state at function entry (for old())
	params        map[string]SVal
	frame         *Frame // write frame in force (of the top-level function)
	alloc0        Term
	stack         []*ssa.Function
	pure          bool // pure mode: no obligations, no assumptions; merges by ite
	loopOrd       map[*ssa.BasicBlock]int
	cellable      map[*ssa.Alloc]bool
	callOrd       map[ssa.Instruction]int
	freshBases    map[string]bool
	prefix        string // obligation name prefix (function display name)
	curBlockReach Term
	curInstr      ssa.Instruction
	rets          []retInfo
	namedResults  []*ssa.Alloc
}

type retInfo struct {
	reach Term
	vals  []Value
	st    *State
	ord   int
	pos   token.Pos
}

// Frame: the set of pre-existing locations a function may write.
type Frame struct {
	items  []FrameItem
	any    bool // unspecified: everything writable
	alloc0 Term
}

type FrameItem struct {
	heap string
	pred func(p Term) Term
	text string
}

func (f *Frame) Writable(heap string, p Term) Term {
	if f == nil || f.any {
		return TTrue
	}
	var alts []Term
	for _, it := range f.items {
		if it.heap == heap || it.heap == "*" {
			alts = append(alts, it.pred(p))
		}
	}
	return Or(alts...)
}

func (x *Exec) fail(f string, a ...interface{}) {
	panic(execAbort{fmt.Sprintf(f, a...)})
}

func (x *Exec) pos(p token.Pos) token.Position {
	return x.u.eng.fset.Position(p)
}

func (x *Exec) instrPos(i ssa.Instruction) token.Position {
	if i == nil {
		return token.Position{}
	}
	p := i.Pos()
	if p == token.NoPos {
		// search operands
		if v, ok := i.(ssa.Value); ok {
			_ = v
		}
	}
	return x.pos(p)
}

// ---------------------------------------------------------------------------
// CFG analysis

type cfgInfo struct {
	order    []*ssa.BasicBlock
	backEdge map[[2]int]bool
	headers  map[*ssa.BasicBlock]bool
	loopBody map[*ssa.BasicBlock]map[*ssa.BasicBlock]bool
}

func analyzeCFG(fn *ssa.Function) *cfgInfo {
	ci := &cfgInfo{backEdge: map[[2]int]bool{}, headers: map[*ssa.BasicBlock]bool{}, loopBody: map[*ssa.BasicBlock]map[*ssa.BasicBlock]bool{}}
	for _, b := range fn.Blocks {
		for _, s := range b.Succs {
			if s.Dominates(b) {
				ci.backEdge[[2]int{b.Index, s.Index}] = true
				ci.headers[s] = true
				body := ci.loopBody[s]
				if body == nil {
					body = map[*ssa.BasicBlock]bool{s: true}
					ci.loopBody[s] = body
				}
				// natural loop: nodes reaching b without passing s
				var stack []*ssa.BasicBlock
				if !body[b] {
					body[b] = true
					stack = append(stack, b)
				}
				for len(stack) > 0 {
					n := stack[len(stack)-1]
					stack = stack[:len(stack)-1]
					for _, p := range n.Preds {
						if !body[p] {
							body[p] = true
							stack = append(stack, p)
						}
					}
				}
			}
		}
	}
	// reverse postorder ignoring back edges
	visited := map[*ssa.BasicBlock]bool{}
	var post []*ssa.BasicBlock
	var dfs func(b *ssa.BasicBlock)
	dfs = func(b *ssa.BasicBlock) {
		visited[b] = true
		for _, s := range b.Succs {
			if ci.backEdge[[2]int{b.Index, s.Index}] {
				continue
			}
			if !visited[s] {
				dfs(s)
			}
		}
		post = append(post, b)
	}
	if len(fn.Blocks) > 0 {
		dfs(fn.Blocks[0])
	}
	for i := len(post) - 1; i >= 0; i-- {
		ci.order = append(ci.order, post[i])
	}
	return ci
}

// loopOrdinals numbers loop headers by source position of the loop.
func loopOrdinals(fn *ssa.Function, ci *cfgInfo) map[*ssa.BasicBlock]int {
	type hp struct {
		b   *ssa.BasicBlock
		pos token.Pos
	}
	var hs []hp
	for h := range ci.headers {
		// position: smallest position of any instruction in the loop body
		min := token.Pos(1 << 40)
		for b := range ci.loopBody[h] {
			for _, in := range b.Instrs {
				if p := in.Pos(); p != token.NoPos && p < min {
					min = p
				}
				if d, ok := in.(*ssa.DebugRef); ok {
					if p := d.Expr.Pos(); p != token.NoPos && p < min {
						min = p
					}
				}
			}
		}
		hs = append(hs, hp{h, min})
	}
	sort.Slice(hs, func(i, j int) bool {
		if hs[i].pos != hs[j].pos {
			return hs[i].pos < hs[j].pos
		}
		return hs[i].b.Index < hs[j].b.Index
	})
	res := map[*ssa.BasicBlock]int{}
	for i, h := range hs {
		res[h.b] = i + 1
	}
	return res
}

// ---------------------------------------------------------------------------
// Cell-ability of allocs: an Alloc can live in a cell if its address never escapes
// to memory or to calls we do not execute ourselves.

func cellable(a *ssa.Alloc) bool {
	if _, isArr := a.Type().Underlying().(*types.Pointer).Elem().Underlying().(*types.Array); isArr && a.Heap {
		// heap arrays back slices; flattened into the element heap
		return false
	}
	return addrOnlyUsedLocally(a, 0)
}

func addrOnlyUsedLocally(v ssa.Value, depth int) bool {
	if depth > 6 {
		return false
	}
	refs := v.Referrers()
	if refs == nil {
		return false
	}
	for _, r := range *refs {
		switch r := r.(type) {
		case *ssa.UnOp:
			if r.Op != token.MUL {
				return false
			}
		case *ssa.Store:
			if r.Val == v {
				return false // address stored somewhere
			}
		case *ssa.FieldAddr:
			if !addrOnlyUsedLocally(r, depth+1) {
				return false
			}
		case *ssa.IndexAddr:
			if r.X != v {
				return false
			}
			if !addrOnlyUsedLocally(r, depth+1) {
				return false
			}
		case *ssa.MakeClosure:
			// captured by a closure: fine when the closure is executed by us; the
			// closure body's uses of the free variable are checked too
			fn := r.Fn.(*ssa.Function)
			for i, b := range r.Bindings {
				if b == v {
					if !addrOnlyUsedLocally(fn.FreeVars[i], depth+1) {
						return false
					}
				}
			}
		case *ssa.DebugRef:
		default:
			return false
		}
	}
	return true
}

// ---------------------------------------------------------------------------
// Running a function body

func (x *Exec) run(st *State, reach Term) {
	fn := x.fn
	ci := analyzeCFG(fn)
	x.loopOrd = loopOrdinals(fn, ci)
	type edgeOut struct {
		cond Term
		st   *State
	}
	outs := map[[2]int]edgeOut{}
	blockReach := map[*ssa.BasicBlock]Term{}
	for _, b := range ci.order {
		var incoming []mergeEdge
		var preds []*ssa.BasicBlock
		if b.Index == 0 {
			incoming = []mergeEdge{{reach, st}}
			preds = []*ssa.BasicBlock{nil}
		} else {
			for _, p := range b.Preds {
				if ci.backEdge[[2]int{p.Index, b.Index}] {
					continue
				}
				if e, ok := outs[[2]int{p.Index, b.Index}]; ok {
					if e.cond.S == "false" {
						continue
					}
					incoming = append(incoming, mergeEdge{e.cond, e.st})
					preds = append(preds, p)
				}
			}
		}
		if len(incoming) == 0 {
			continue
		}
		var cur *State
		var r Term
		if len(incoming) == 1 {
			cur = incoming[0].st.Clone()
			r = incoming[0].cond
		} else {
			cur, r = x.merge(incoming, fmt.Sprintf("b%d", b.Index))
		}
		if !x.pure && len(r.S) > 40 {
			rb := x.u.W.Fresh(fmt.Sprintf("r.%s.b%d", shortFn(fn), b.Index), SBool)
			x.u.AssumeRaw(Eq(rb, r))
			r = rb
		}
		// phi nodes
		for _, in := range b.Instrs {
			phi, ok := in.(*ssa.Phi)
			if !ok {
				break
			}
			var val Value
			// edges: ordered as b.Preds
			var terms []Term
			var conds []Term
			for i, p := range b.Preds {
				if e, ok := outs[[2]int{p.Index, b.Index}]; ok && !ci.backEdge[[2]int{p.Index, b.Index}] {
					v := x.val(phi.Edges[i])
					terms = append(terms, x.term(v))
					conds = append(conds, e.cond)
				}
			}
			if len(terms) == 0 {
				x.fail("phi without incoming edges")
			}
			t := terms[len(terms)-1]
			for i := len(terms) - 2; i >= 0; i-- {
				t = Ite(conds[i], terms[i], t)
			}
			val = t
			x.regs[phi] = val
		}
		if ci.headers[b] {
			cur = x.loopHeader(b, ci, cur, r)
		}
		blockReach[b] = r
		x.curBlockReach = r
		// execute
		for _, in := range b.Instrs {
			if _, ok := in.(*ssa.Phi); ok {
				continue
			}
			x.curInstr = in
			switch in := in.(type) {
			case *ssa.If:
				c := x.term(x.val(in.Cond))
				outs[[2]int{b.Index, b.Succs[0].Index}] = edgeOut{And(r, c), cur}
				outs[[2]int{b.Index, b.Succs[1].Index}] = edgeOut{And(r, Not(c)), cur}
				if b.Succs[0] == b.Succs[1] {
					outs[[2]int{b.Index, b.Succs[0].Index}] = edgeOut{r, cur}
				}
			case *ssa.Jump:
				outs[[2]int{b.Index, b.Succs[0].Index}] = edgeOut{r, cur}
			case *ssa.Return:
				x.curBlockReach = r
				x.hintsAt("return", "return", in.Pos(), cur)
				var vals []Value
				for _, rv := range in.Results {
					vals = append(vals, x.val(rv))
				}
				x.rets = append(x.rets, retInfo{reach: r, vals: vals, st: cur, ord: len(x.rets) + 1, pos: in.Pos()})
			case *ssa.Panic:
				if !x.pure {
					x.u.AddObl(x.prefix+" / safety[explicit-panic]", "safety", "panic unreachable", r, TFalse, x.instrPos(in), x.prefix)
				}
			default:
				x.step(in, cur)
			}
		}
		// back edges: invariant preservation
		for _, s := range b.Succs {
			if ci.backEdge[[2]int{b.Index, s.Index}] {
				e := outs[[2]int{b.Index, s.Index}]
				x.loopBack(s, e.st, e.cond)
			}
		}
	}
	for h, err := range x.hintSkipped {
		if !x.hintUsed[h] {
			x.invariantError(fmt.Sprintf("%s / hint[%s]", x.prefix, h.C.Name), h.C, err)
		}
	}
}

func shortFn(fn *ssa.Function) string {
	n := fn.Name()
	if len(n) > 24 {
		n = n[:24]
	}
	return n
}

func (x *Exec) ordName(in ssa.Instruction) string {
	p := x.instrPos(in)
	return fmt.Sprintf("L%d", p.Line)
}

// merge joins several states under their edge conditions.
func (x *Exec) merge(in []mergeEdge, tag string) (*State, Term) {
	u := x.u
	var conds []Term
	for _, e := range in {
		conds = append(conds, e.cond)
	}
	r := Or(conds...)
	ns := &State{cells: map[interface{}]Value{}, heaps: map[string]Term{}, u: u}
	ns.gen = &Gen{kind: "merge", parents: in, tag: tag}
	// cells
	keys := map[interface{}]bool{}
	for _, e := range in {
		for k := range e.st.cells {
			keys[k] = true
		}
	}
	for _, k := range sortedKeys(keys) {
		var vals []Value
		missing := false
		for _, e := range in {
			v, ok := e.st.cells[k]
			if !ok {
				if ks, isStr := k.(string); isStr && strings.HasPrefix(ks, "calls:") {
					v = IntLit(0) // a ghost call counter that was never incremented on this path
				} else if g, isG := k.(*ssa.Global); isG && x.entry != nil && !x.pure {
					// a package variable neither read nor written on this path: still its value at
					// function entry (unknown if a call that may assign any variable ran)
					t := g.Type().Underlying().(*types.Pointer).Elem()
					if ev, ok := x.entry.cells[k]; ok && !e.st.gdirty {
						v = ev
					} else {
						nv := u.W.Fresh("g."+g.Name(), u.W.SortOf(t))
						if !e.st.gdirty {
							x.entry.cells[k] = nv
						}
						v = nv
					}
				} else {
					missing = true
					break
				}
			}
			vals = append(vals, v)
		}
		if missing {
			continue // not defined on all paths: dead after the join
		}
		same := true
		for _, v := range vals[1:] {
			if !valueEq(v, vals[0]) {
				same = false
			}
		}
		if same {
			ns.cells[k] = vals[0]
			continue
		}
		// all must be terms
		var ts []Term
		ok := true
		for _, v := range vals {
			t, isT := v.(Term)
			if !isT {
				ok = false
				break
			}
			ts = append(ts, t)
		}
		if !ok {
			// meta-level values differing across paths: poison the cell
			ns.cells[k] = poison{fmt.Sprintf("%v", k)}
			continue
		}
		if x.pure {
			t := ts[len(ts)-1]
			for i := len(ts) - 2; i >= 0; i-- {
				t = Ite(in[i].cond, ts[i], t)
			}
			ns.cells[k] = t
			continue
		}
		sym := u.W.Fresh("m."+cellName(k), ts[0].Sort)
		for i, e := range in {
			u.AssumeRaw(Implies(e.cond, Eq(sym, ts[i])))
		}
		ns.cells[k] = sym
	}
	// heaps: materialise those present in any input
	hk := map[string]string{}
	for _, e := range in {
		for k, v := range e.st.heaps {
			hk[k] = v.Sort
		}
	}
	names := make([]string, 0, len(hk))
	for k := range hk {
		names = append(names, k)
	}
	sort.Strings(names)
	for _, k := range names {
		ns.Heap(k, hk[k])
	}
	for _, e := range in {
		if e.st.gdirty {
			ns.gdirty = true
		}
	}
	// alloc
	sameAlloc := true
	for _, e := range in[1:] {
		if e.st.alloc.S != in[0].st.alloc.S {
			sameAlloc = false
		}
	}
	if sameAlloc {
		ns.alloc = in[0].st.alloc
	} else {
		a := u.W.Fresh("alloc.m", SInt)
		for _, e := range in {
			u.AssumeRaw(Implies(e.cond, Eq(a, e.st.alloc)))
		}
		ns.alloc = a
	}
	// defers: must agree
	ns.defers = in[0].st.defers
	for _, e := range in[1:] {
		if len(e.st.defers) != len(ns.defers) {
			// conditional defers: unsupported
			x.fail("conditional defer")
		}
	}
	return ns, r
}

type poison struct{ what string }

func cellName(k interface{}) string {
	switch k := k.(type) {
	case *ssa.Alloc:
		if k.Comment != "" {
			return k.Comment
		}
		return k.Name()
	case *ssa.Global:
		return k.Name()
	case string:
		return k
	}
	return "cell"
}

func valueEq(a, b Value) bool {
	switch a := a.(type) {
	case Term:
		bt, ok := b.(Term)
		return ok && a.S == bt.S
	case *Loc:
		bl, ok := b.(*Loc)
		if !ok || a.Kind != bl.Kind || a.Key != bl.Key || a.Ptr.S != bl.Ptr.S || len(a.Path) != len(bl.Path) {
			return false
		}
		for i := range a.Path {
			if a.Path[i].Field != bl.Path[i].Field {
				return false
			}
			if (a.Path[i].Index == nil) != (bl.Path[i].Index == nil) {
				return false
			}
			if a.Path[i].Index != nil && a.Path[i].Index.S != bl.Path[i].Index.S {
				return false
			}
		}
		return true
	case *Closure:
		bc, ok := b.(*Closure)
		if !ok || a.Fn != bc.Fn || len(a.Bindings) != len(bc.Bindings) {
			return false
		}
		for i := range a.Bindings {
			if !valueEq(a.Bindings[i], bc.Bindings[i]) {
				return false
			}
		}
		return true
	case *FuncRef:
		bf, ok := b.(*FuncRef)
		return ok && a.Fn == bf.Fn
	case Tuple:
		bt, ok := b.(Tuple)
		if !ok || len(a) != len(bt) {
			return false
		}
		for i := range a {
			if !valueEq(a[i], bt[i]) {
				return false
			}
		}
		return true
	case *MapIter:
		bi, ok := b.(*MapIter)
		return ok && a == bi
	case poison:
		return false
	}
	return false
}

// ---------------------------------------------------------------------------
// Loops

// loopModset: cells stored and heap types written in the loop body.
func (x *Exec) loopCells(h *ssa.BasicBlock, ci *cfgInfo) map[interface{}]bool {
	cells := map[interface{}]bool{}
	var visitFn func(fn *ssa.Function, blocks []*ssa.BasicBlock, depth int)
	seen := map[*ssa.Function]bool{}
	visitFn = func(fn *ssa.Function, blocks []*ssa.BasicBlock, depth int) {
		for _, b := range blocks {
			for _, in := range b.Instrs {
				switch in := in.(type) {
				case *ssa.Store:
					if k := rootCell(in.Addr); k != nil {
						cells[k] = true
					}
				case *ssa.Alloc:
					cells[in] = true
				case *ssa.Range:
					cells[in] = true
				case *ssa.Next:
					if r, ok := in.Iter.(*ssa.Range); ok {
						cells[r] = true
					}
				case *ssa.MapUpdate:
				case ssa.CallInstruction:
					// closures called in the loop may write captured cells; inlined callees too
					c := in.Common()
					var callee *ssa.Function
					if f := c.StaticCallee(); f != nil {
						callee = f
					}
					if callee != nil && callee.Blocks != nil && !seen[callee] && depth < 4 && x.u.eng.inRepo(callee) {
						seen[callee] = true
						visitFn(callee, callee.Blocks, depth+1)
					}
					// closure values held in cells: scan all closures made in the enclosing function
					if _, isFn := c.Value.(*ssa.Function); !isFn && callee == nil {
						for _, anon := range x.fn.AnonFuncs {
							if !seen[anon] {
								seen[anon] = true
								visitFn(anon, anon.Blocks, depth+1)
							}
						}
					}
					// calls with a pointer to a cell as argument (escaping) are not cells.
				}
			}
		}
	}
	var blocks []*ssa.BasicBlock
	for b := range ci.loopBody[h] {
		blocks = append(blocks, b)
	}
	visitFn(x.fn, blocks, 0)
	return cells
}

// rootCell finds the Alloc/Global/FreeVar at the root of an address expression.
func rootCell(v ssa.Value) interface{} {
	for {
		switch a := v.(type) {
		case *ssa.Alloc:
			return a
		case *ssa.Global:
			return a
		case *ssa.FreeVar:
			return a
		case *ssa.FieldAddr:
			v = a.X
		case *ssa.IndexAddr:
			if _, ok := a.X.Type().Underlying().(*types.Pointer); ok {
				v = a.X
			} else {
				return nil
			}
		default:
			return nil
		}
	}
}

func (x *Exec) loopHeader(h *ssa.BasicBlock, ci *cfgInfo, pre *State, reach Term) *State {
	u := x.u
	if x.pure {
		x.fail("loop in pure context")
	}
	ord := x.loopOrd[h]
	var lc *LoopContract
	if x.fc != nil {
		lc = x.fc.Loops[ord]
	}
	lname := fmt.Sprintf("%s / loop#%d", x.prefix, ord)
	if x.loopEntry == nil {
		x.loopEntry = map[int]*State{}
	}
	x.loopEntry[ord] = pre.Clone() // for atloop(N, expr): the state in which loop N was entered
	// 1. invariants hold on entry
	if lc != nil && !x.pure {
		for i, inv := range lc.Invariants {
			env := x.specEnv(pre, nil)
			env.header = h
			g, err := env.EvalBool(inv.Expr)
			if err != nil {
				x.invariantError(lname, inv, err)
				continue
			}
			u.AddObl(fmt.Sprintf("%s / invariant[%s] /entry", lname, clauseName(inv, i)), "invariant", inv.Text, reach, g, x.pos(loopPos(h)), x.prefix)
		}
	}
	// 2. havoc
	post := pre.Clone()
	// the allocation counter is havocked first: the validity facts of the havocked cells below
	// ("points below the allocation counter") must refer to the counter at the loop head, not to
	// the one before the loop (a slice grown inside the loop lives above the latter)
	allocBefore := pre.alloc
	post.alloc = u.W.Fresh("alloc", SInt)
	u.Assume(reach, Ge(post.alloc, allocBefore))
	cells := x.loopCells(h, ci)
	for _, k := range sortedKeys(cells) {
		// resolve FreeVar to the cell it is bound to
		key := k
		if fv, ok := k.(*ssa.FreeVar); ok {
			if l, ok := x.regs[fv].(*Loc); ok && l.Kind == "cell" {
				key = l.Key
			} else {
				continue
			}
		}
		old, ok := post.cells[key]
		if !ok {
			if g, isG := key.(*ssa.Global); isG {
				// a package variable assigned in the loop and not yet read on this path: unknown at
				// the loop head (must not fall back to its value at function entry)
				t := g.Type().Underlying().(*types.Pointer).Elem()
				nv := u.W.Fresh("h.g."+g.Name(), u.W.SortOf(t))
				post.cells[key] = nv
				x.assumeTypeInv(nv, t, reach, post)
			}
			continue
		}
		switch ov := old.(type) {
		case Term:
			post.cells[key] = u.W.Fresh("h."+cellName(key), ov.Sort)
			x.assumeTypeInv(post.cells[key].(Term), cellType(key), reach, post)
			if al, ok := key.(*ssa.Alloc); ok && ov.Sort == SSlice && alwaysFreshSlice(al) {
				// structural invariant: the variable only ever holds nil, make(...) or append/reslice
				// results of itself, so its backing array was allocated by this activation
				nv := post.cells[key].(Term)
				u.Assume(reach, Or(Ge(PBase(SlPtr(nv)), x.alloc0), Eq(SlCap(nv), IntLit(0))))
			}
		case *MapIter:
			ni := *ov
			ni.Visited = u.W.Fresh("visited", ov.Visited.Sort)
			ni.N = u.W.Fresh("nvisited", SInt)
			post.cells[key] = &ni
		default:
			// meta-level values (closures, locs) are loop-invariant if never reassigned;
			// we cannot havoc them, so require that the loop does not store to them.
			if a, ok := key.(*ssa.Alloc); ok && storesInLoop(a, ci.loopBody[h]) {
				post.cells[key] = poison{cellName(key)}
			}
		}
	}
	// ghost cells: call counters of contracted functions called in the body, the clock
	for _, name := range x.loopContractCalls(h, ci) {
		post.cells["calls:"+name] = u.W.Fresh("calls", SInt)
		u.Assume(reach, Ge(post.cells["calls:"+name].(Term), IntLit(0)))
	}
	if last, ok := pre.cells["ghost.now"].(Term); ok && x.loopCallsClock(h, ci) {
		nn := u.W.Fresh("now.ns", SInt)
		u.Assume(reach, Ge(nn, last))
		post.cells["ghost.now"] = nn
	}
	// heaps: new generation constrained by the write frame
	fr := x.frame
	a0 := x.alloc0
	post.heaps = map[string]Term{}
	pa := post.alloc
	post.gen = &Gen{kind: "havoc", parent: pre, guard: reach, tag: fmt.Sprintf("l%d", ord), allocBefore: a0, allocAfter: &pa,
		writable: func(heap string, p Term) Term { return fr.Writable(heap, p) }}
	if fr == nil || fr.any {
		post.gen.writable = nil
	}
	post.gen.only = x.loopHeapWrites(h, ci)
	// 3. assume invariants
	x.autoInvariants(h, ci, post, reach)
	if lc != nil {
		for _, inv := range lc.Invariants {
			env := x.specEnv(post, nil)
			env.header = h
			env.noAlts = true // assumed at the loop head
			g, err := env.EvalBool(inv.Expr)
			if err != nil {
				continue
			}
			u.Assume(reach, g)
		}
		if lc.Decreases != nil {
			env := x.specEnv(post, nil)
			env.header = h
			v, err := env.Eval(lc.Decreases.Expr)
			if err == nil {
				post.cells[fmt.Sprintf("variant#%d", ord)] = v.T
			}
		}
	}
	return post
}

func storesInLoop(a *ssa.Alloc, body map[*ssa.BasicBlock]bool) bool {
	for _, r := range *a.Referrers() {
		if s, ok := r.(*ssa.Store); ok && s.Addr == a && body[s.Block()] {
			return true
		}
	}
	return false
}

func loopPos(h *ssa.BasicBlock) token.Pos {
	for _, in := range h.Instrs {
		if p := in.Pos(); p != token.NoPos {
			return p
		}
	}
	for _, s := range h.Succs {
		for _, in := range s.Instrs {
			if p := in.Pos(); p != token.NoPos {
				return p
			}
		}
	}
	return token.NoPos
}

func cellType(k interface{}) types.Type {
	switch k := k.(type) {
	case *ssa.Alloc:
		return k.Type().Underlying().(*types.Pointer).Elem()
	case *ssa.Global:
		return k.Type().Underlying().(*types.Pointer).Elem()
	}
	return nil
}

func clauseName(c *Clause, i int) string {
	if c.Name != "" {
		return c.Name
	}
	return fmt.Sprintf("#%d", i+1)
}

// autoInvariants: bounds of the hidden range index.
func (x *Exec) autoInvariants(h *ssa.BasicBlock, ci *cfgInfo, st *State, reach Term) {
	// pattern: header loads rangeindex cell, adds 1, stores, compares with a length register
	for _, in := range h.Instrs {
		if st2, ok := in.(*ssa.Store); ok {
			if a, ok := st2.Addr.(*ssa.Alloc); ok && a.Comment == "rangeindex" {
				// find comparison
				for _, in2 := range h.Instrs {
					if b, ok := in2.(*ssa.BinOp); ok && b.Op == token.LSS && b.X == st2.Val {
						if lenv, ok := x.regs[b.Y]; ok {
							if lt, ok := lenv.(Term); ok {
								if cv, ok := st.cells[a].(Term); ok {
									x.u.Assume(reach, And(Ge(cv, IntLit(-1)), Lt(cv, lt)))
									x.u.Assume(reach, Ge(lt, IntLit(0)))
								}
							}
						}
					}
				}
			}
		}
	}
}

func (x *Exec) loopBack(h *ssa.BasicBlock, st *State, reach Term) {
	if x.pure {
		return
	}
	u := x.u
	ord := x.loopOrd[h]
	var lc *LoopContract
	if x.fc != nil {
		lc = x.fc.Loops[ord]
	}
	// vacuity guard: an iteration of the loop can complete under the invariants and facts assumed
	// at its head (a contradictory invariant or havoc would make every obligation in the body and
	// after the loop hold trivially)
	if so := u.AddObl(fmt.Sprintf("%s / loop#%d / smoke[iteration completes]", x.prefix, ord), "vacuity", "a loop iteration can complete under the assumptions in force (invariants and havoc facts are consistent)", reach, TFalse, x.pos(loopPos(h)), x.prefix); so != nil {
		so.ExpectSat = true
	}
	if lc == nil {
		return
	}
	lname := fmt.Sprintf("%s / loop#%d", x.prefix, ord)
	for i, inv := range lc.Invariants {
		env := x.specEnv(st, nil)
		env.header = h
		g, err := env.EvalBool(inv.Expr)
		if err != nil {
			x.invariantError(lname, inv, err)
			continue
		}
		u.AddObl(fmt.Sprintf("%s / invariant[%s] /preserve", lname, clauseName(inv, i)), "invariant", inv.Text, reach, g, x.pos(loopPos(h)), x.prefix)
	}
	if lc.Decreases != nil {
		env := x.specEnv(st, nil)
		env.header = h
		v, err := env.Eval(lc.Decreases.Expr)
		if err != nil {
			u.Errorf("%s: decreases: %v", lname, err)
			return
		}
		if ov, ok := st.cells[fmt.Sprintf("variant#%d", ord)].(Term); ok {
			u.AddObl(fmt.Sprintf("%s / variant", lname), "variant", "decreases "+lc.Decreases.Text, reach, And(Lt(v.T, ov), Ge(ov, IntLit(0))), x.pos(loopPos(h)), x.prefix)
		}
	}
}

// assumeTypeInv adds range/validity facts for a value of Go type t.
func (x *Exec) assumeTypeInv(v Term, t types.Type, reach Term, st *State) {
	if t == nil || x.pure {
		return
	}
	f := x.u.typeFacts(v, t, st.alloc, 0)
	if f.S != "true" {
		x.u.Assume(reach, f)
	}
}

func (u *Unit) typeFacts(v Term, t types.Type, alloc Term, depth int) Term {
	switch tt := t.Underlying().(type) {
	case *types.Basic:
		if tt.Info()&types.IsInteger != 0 {
			lo, hi := intRange(tt)
			return And(Ge(v, IntLitStr(lo)), Le(v, IntLitStr(hi)))
		}
	case *types.Pointer, *types.Map, *types.Chan:
		return And(Ge(PBase(v), IntLit(0)), Lt(PBase(v), alloc))
	case *types.Slice:
		return And(Ge(SlLen(v), IntLit(0)), Le(SlLen(v), SlCap(v)), Le(SlCap(v), IntLit(1<<47)), Ge(PBase(SlPtr(v)), IntLit(0)), Lt(PBase(SlPtr(v)), alloc), Ge(PIdx(SlPtr(v)), IntLit(0)),
			Implies(Eq(PBase(SlPtr(v)), IntLit(0)), Eq(SlCap(v), IntLit(0))))
	case *types.Struct:
		if depth > 2 {
			return TTrue
		}
		var fs []Term
		for i := 0; i < tt.NumFields(); i++ {
			fs = append(fs, u.typeFacts(u.W.FieldGet(t, v, i), tt.Field(i).Type(), alloc, depth+1))
		}
		return And(fs...)
	}
	return TTrue
}

func intRange(b *types.Basic) (string, string) {
	switch b.Kind() {
	case types.Int8:
		return "-128", "127"
	case types.Int16:
		return "-32768", "32767"
	case types.Int32:
		return "-2147483648", "2147483647"
	case types.Uint8:
		return "0", "255"
	case types.Uint16:
		return "0", "65535"
	case types.Uint32:
		return "0", "4294967295"
	case types.Uint, types.Uint64, types.Uintptr:
		return "0", "18446744073709551615"
	}
	return "-9223372036854775808", "9223372036854775807"
}

func fnDisplayName(fn *ssa.Function) string {
	s := fn.String()
	s = strings.TrimPrefix(s, "github.com/Vedant9500/WTF/internal/")
	s = strings.Replace(s, "(*github.com/Vedant9500/WTF/internal/", "(*", 1)
	s = strings.Replace(s, "(github.com/Vedant9500/WTF/internal/", "(", 1)
	s = strings.TrimPrefix(s, "github.com/")
	return s
}

// loopHeapWrites: names of the heaps the loop body may write (nil = unknown, any).
func (x *Exec) loopHeapWrites(h *ssa.BasicBlock, ci *cfgInfo) map[string]bool {
	out := map[string]bool{}
	seen := map[*ssa.Function]bool{}
	w := x.u.W
	var scan func(fn *ssa.Function, blocks []*ssa.BasicBlock, depth int) bool
	scan = func(fn *ssa.Function, blocks []*ssa.BasicBlock, depth int) bool {
		for _, b := range blocks {
			for _, in := range b.Instrs {
				switch in := in.(type) {
				case *ssa.Store:
					if t := rootTypeOfAddr(in.Addr, x); t != nil {
						out[heapName(t)] = true
					}
				case *ssa.MapUpdate:
					md, mv, mc, _, _ := mapHeaps(w, in.Map.Type().Underlying().(*types.Map))
					out[md], out[mv], out[mc] = true, true, true
				case *ssa.Alloc:
					if !x.isCell(in) {
						et := in.Type().Underlying().(*types.Pointer).Elem()
						if at, ok := et.Underlying().(*types.Array); ok {
							out[heapName(at.Elem())] = true
						} else {
							out[heapName(et)] = true
						}
					}
				case *ssa.MakeMap:
					md, mv, mc, _, _ := mapHeaps(w, in.Type().Underlying().(*types.Map))
					out[md], out[mv], out[mc] = true, true, true
				case *ssa.Convert:
					if sl, ok := in.Type().Underlying().(*types.Slice); ok {
						out[heapName(sl.Elem())] = true
					}
				case ssa.CallInstruction:
					c := in.Common()
					if c.IsInvoke() {
						if c.Method.Name() == "Error" {
							continue
						}
						return false
					}
					if bi, ok := c.Value.(*ssa.Builtin); ok {
						switch bi.Name() {
						case "append", "copy":
							out[heapName(c.Args[0].Type().Underlying().(*types.Slice).Elem())] = true
						case "delete":
							md, mv, mc, _, _ := mapHeaps(w, c.Args[0].Type().Underlying().(*types.Map))
							out[md], out[mv], out[mc] = true, true, true
						}
						continue
					}
					callee := c.StaticCallee()
					if callee == nil {
						// function value: any anonymous function of the enclosing function, or any closure
						// that was turned into a first-class value so far
						cands := append([]*ssa.Function(nil), x.fn.AnonFuncs...)
						for _, rc := range x.u.closures {
							cands = append(cands, rc.c.Fn)
						}
						for _, anon := range cands {
							if !seen[anon] {
								seen[anon] = true
								if fc := x.u.eng.contractFor(anon); fc != nil && fc.HasMod && len(fc.Modifies) == 0 {
									continue
								}
								if anon.Blocks == nil || !scan(anon, anon.Blocks, depth+1) {
									return false
								}
							}
						}
						continue
					}
					full := callee.String()
					if _, ok := intrinsics[full]; ok {
						if full == "sort.Slice" || full == "sort.SliceStable" {
							if mi, ok := c.Args[0].(*ssa.MakeInterface); ok {
								if sl, ok := mi.X.Type().Underlying().(*types.Slice); ok {
									out[heapName(sl.Elem())] = true
									continue
								}
							}
							return false
						}
						if full == "sort.Ints" || full == "sort.Float64s" || full == "sort.Strings" {
							if sl, ok := c.Args[0].Type().Underlying().(*types.Slice); ok {
								out[heapName(sl.Elem())] = true
								continue
							}
							return false
						}
						if strings.Contains(full, "Unmarshal") {
							return false
						}
						continue
					}
					if fc := x.u.eng.contractFor(callee); fc != nil && (len(fc.Ensures) > 0 || len(fc.Requires) > 0 || fc.HasMod || fc.Assumed || fc.Pure) && fc.Opts["inline"] == "" {
						if fc.Pure || (fc.HasMod && len(fc.Modifies) == 0) || (!fc.HasMod && !fc.Assumed) {
							continue
						}
						if names, ok := x.frameHeapNames(fc, callee); ok {
							for _, n := range names {
								out[n] = true
							}
							continue
						}
						return false
					}
					if isPureExternal(callee) {
						continue
					}
					if x.u.eng.inRepo(callee) && callee.Blocks != nil && depth < maxInlineDepth {
						if !seen[callee] {
							seen[callee] = true
							if !scan(callee, callee.Blocks, depth+1) {
								return false
							}
						}
						continue
					}
					// external without contract: heaps reachable by type from its parameters
					hs := map[string]bool{}
					sn := map[string]bool{}
					ps := callee.Signature.Params()
					for i := 0; i < ps.Len(); i++ {
						x.typeClosureHeaps(ps.At(i).Type(), hs, sn, false)
					}
					if callee.Signature.Recv() != nil {
						x.typeClosureHeaps(callee.Signature.Recv().Type(), hs, sn, false)
					}
					if hs["*iface*"] && !(callee.Pkg != nil && safeExternalPkg(callee.Pkg.Pkg.Path())) {
						return false
					}
					delete(hs, "*iface*")
					for k := range hs {
						out[k] = true
					}
				}
			}
		}
		return true
	}
	var blocks []*ssa.BasicBlock
	for b := range ci.loopBody[h] {
		blocks = append(blocks, b)
	}
	if !scan(x.fn, blocks, 0) {
		return nil
	}
	return out
}

// rootTypeOfAddr: type of the heap object an address expression points into (nil for cells).
func rootTypeOfAddr(v ssa.Value, x *Exec) types.Type {
	switch a := v.(type) {
	case *ssa.Alloc:
		if x.isCell(a) {
			return nil
		}
		et := a.Type().Underlying().(*types.Pointer).Elem()
		if at, ok := et.Underlying().(*types.Array); ok {
			return at.Elem()
		}
		return et
	case *ssa.Global:
		return nil
	case *ssa.FreeVar:
		if l, ok := x.regs[a].(*Loc); ok && l.Kind == "cell" {
			return nil
		}
		return a.Type().Underlying().(*types.Pointer).Elem()
	case *ssa.FieldAddr:
		switch a.X.(type) {
		case *ssa.FieldAddr, *ssa.IndexAddr, *ssa.Alloc, *ssa.Global, *ssa.FreeVar:
			return rootTypeOfAddr(a.X, x)
		}
		return a.X.Type().Underlying().(*types.Pointer).Elem()
	case *ssa.IndexAddr:
		switch t := a.X.Type().Underlying().(type) {
		case *types.Slice:
			return t.Elem()
		case *types.Pointer:
			switch a.X.(type) {
			case *ssa.FieldAddr, *ssa.IndexAddr, *ssa.Alloc, *ssa.Global, *ssa.FreeVar:
				return rootTypeOfAddr(a.X, x)
			}
			return t.Elem().Underlying().(*types.Array).Elem()
		}
	}
	if pt, ok := v.Type().Underlying().(*types.Pointer); ok {
		return pt.Elem()
	}
	return nil
}

// loopContractCalls: display names of contracted functions that may be called (modularly) in the loop body.
func (x *Exec) loopContractCalls(h *ssa.BasicBlock, ci *cfgInfo) []string {
	out := map[string]bool{}
	seen := map[*ssa.Function]bool{}
	var scan func(blocks []*ssa.BasicBlock, depth int)
	visitFn := func(fn *ssa.Function, depth int) {
		if fn == nil || seen[fn] || depth > maxInlineDepth {
			return
		}
		seen[fn] = true
		if fc := x.u.eng.contractFor(fn); fc != nil && (len(fc.Ensures) > 0 || len(fc.Requires) > 0 || fc.HasMod || fc.Assumed || fc.Pure) && fc.Opts["inline"] == "" {
			out[fnDisplayName(fn)] = true
			return
		}
		if fn.Blocks != nil && (x.u.eng.inRepo(fn) || fn.Synthetic != "") {
			scan(fn.Blocks, depth+1)
		}
	}
	scan = func(blocks []*ssa.BasicBlock, depth int) {
		for _, b := range blocks {
			for _, in := range b.Instrs {
				if mc, ok := in.(*ssa.MakeClosure); ok {
					visitFn(mc.Fn.(*ssa.Function), depth)
				}
				c, ok := in.(ssa.CallInstruction)
				if !ok {
					continue
				}
				if callee := c.Common().StaticCallee(); callee != nil {
					visitFn(callee, depth)
				} else if !c.Common().IsInvoke() {
					if _, isB := c.Common().Value.(*ssa.Builtin); !isB {
						for _, anon := range x.fn.AnonFuncs {
							visitFn(anon, depth)
						}
						for _, rc := range x.u.closures {
							visitFn(rc.c.Fn, depth)
						}
					}
				}
			}
		}
	}
	var blocks []*ssa.BasicBlock
	for b := range ci.loopBody[h] {
		blocks = append(blocks, b)
	}
	scan(blocks, 0)
	var names []string
	for k := range out {
		names = append(names, k)
	}
	sort.Strings(names)
	return names
}

// loopCallsClock: does the loop body (transitively) read the clock?
func (x *Exec) loopCallsClock(h *ssa.BasicBlock, ci *cfgInfo) bool {
	seen := map[*ssa.Function]bool{}
	var scan func(blocks []*ssa.BasicBlock, depth int) bool
	scan = func(blocks []*ssa.BasicBlock, depth int) bool {
		for _, b := range blocks {
			for _, in := range b.Instrs {
				c, ok := in.(ssa.CallInstruction)
				if !ok {
					continue
				}
				callee := c.Common().StaticCallee()
				if callee == nil {
					if c.Common().IsInvoke() {
						continue
					}
					if _, isB := c.Common().Value.(*ssa.Builtin); isB {
						continue
					}
					return true // unknown function value
				}
				switch callee.String() {
				case "time.Now", "time.Since", "time.Until":
					return true
				}
				if seen[callee] || depth > maxInlineDepth {
					continue
				}
				seen[callee] = true
				if callee.Blocks != nil && x.u.eng.inRepo(callee) {
					if scan(callee.Blocks, depth+1) {
						return true
					}
				}
			}
		}
		return false
	}
	var blocks []*ssa.BasicBlock
	for b := range ci.loopBody[h] {
		blocks = append(blocks, b)
	}
	return scan(blocks, 0)
}

// frameHeapNames: the heaps named by a contract's modifies clause, computed from the static
// types of its items (without evaluating them).
func (x *Exec) frameHeapNames(fc *FuncContract, fn *ssa.Function) ([]string, bool) {
	w := x.u.W
	var names []string
	pkg := x.u.eng.typesPkgFor(fc.Pkg)
	env := &SpecEnv{u: x.u, x: x, pkg: pkg, vars: map[string]SVal{}, bound: map[string]SVal{}}
	var typeOf func(s *SExpr) types.Type
	typeOf = func(s *SExpr) types.Type {
		switch s.Kind {
		case "ident":
			for _, p := range fn.Params {
				if p.Name() == s.Name {
					return p.Type()
				}
			}
		case "field":
			t := typeOf(s.Args[0])
			if t == nil {
				return nil
			}
			if pt, ok := t.Underlying().(*types.Pointer); ok {
				t = pt.Elem()
			}
			if st := structOf(t); st != nil {
				for i := 0; i < st.NumFields(); i++ {
					if st.Field(i).Name() == s.Name {
						return st.Field(i).Type()
					}
				}
			}
		case "index":
			t := typeOf(s.Args[0])
			if t == nil {
				return nil
			}
			switch tt := t.Underlying().(type) {
			case *types.Slice:
				return tt.Elem()
			case *types.Map:
				return tt.Elem()
			}
		}
		return nil
	}
	for _, item := range fc.Modifies {
		switch {
		case item == "anything":
			return nil, false
		case strings.HasPrefix(item, "ghost(") && strings.HasSuffix(item, ")"):
			names = append(names, "G."+item[6:len(item)-1])
		case strings.HasPrefix(item, "heap(") && strings.HasSuffix(item, ")"):
			var gt types.Type
			func() {
				defer func() { recover() }()
				gt, _ = env.resolveType(item[5 : len(item)-1])
			}()
			if gt == nil {
				return nil, false
			}
			if mt, ok := gt.Underlying().(*types.Map); ok {
				md, mv, mc, _, _ := mapHeaps(w, mt)
				names = append(names, md, mv, mc)
			} else {
				names = append(names, heapName(gt))
			}
		case strings.HasSuffix(item, "[*]"):
			ex, err := ParseSpecExpr(strings.TrimSuffix(item, "[*]"))
			if err != nil {
				return nil, false
			}
			t := typeOf(ex)
			if t == nil {
				return nil, false
			}
			switch tt := t.Underlying().(type) {
			case *types.Slice:
				names = append(names, heapName(tt.Elem()))
			case *types.Map:
				md, mv, mc, _, _ := mapHeaps(w, tt)
				names = append(names, md, mv, mc)
			default:
				return nil, false
			}
		case strings.HasSuffix(item, ".*"):
			ex, err := ParseSpecExpr(strings.TrimSuffix(item, ".*"))
			if err != nil {
				return nil, false
			}
			t := typeOf(ex)
			if t == nil {
				return nil, false
			}
			pt, ok := t.Underlying().(*types.Pointer)
			if !ok {
				return nil, false
			}
			names = append(names, heapName(pt.Elem()))
		default:
			return nil, false
		}
	}
	return names, true
}

// alwaysFreshSlice: every value ever stored into the local slice variable is nil, a make, or an
// append / reslice of the variable itself — so its backing array is memory allocated after the
// verified function was entered (or it has capacity zero).
func alwaysFreshSlice(al *ssa.Alloc) bool {
	refs := al.Referrers()
	if refs == nil {
		return false
	}
	isSelf := func(v ssa.Value) bool {
		u, ok := v.(*ssa.UnOp)
		return ok && u.Op == token.MUL && u.X == ssa.Value(al)
	}
	for _, r := range *refs {
		st, ok := r.(*ssa.Store)
		if !ok || st.Addr != ssa.Value(al) {
			continue
		}
		switch v := st.Val.(type) {
		case *ssa.Const:
			if v.Value != nil {
				return false
			}
		case *ssa.MakeSlice:
		case *ssa.Call:
			bi, ok := v.Call.Value.(*ssa.Builtin)
			if !ok || bi.Name() != "append" || !isSelf(v.Call.Args[0]) {
				return false
			}
		case *ssa.Slice:
			if isSelf(v.X) {
				continue
			}
			// a composite literal: a slice of an array allocated right here
			if a2, ok := v.X.(*ssa.Alloc); ok && a2.Heap {
				if _, isArr := a2.Type().Underlying().(*types.Pointer).Elem().Underlying().(*types.Array); isArr {
					continue
				}
			}
			return false
		default:
			return false
		}
	}
	return true
}

// sortedKeys orders cell keys deterministically (the generated symbols and assertion order must
// not depend on Go's map iteration order: solver behaviour would differ from run to run).
func sortedKeys(m map[interface{}]bool) []interface{} {
	type kv struct {
		k interface{}
		s string
	}
	var ks []kv
	for k := range m {
		var s string
		switch t := k.(type) {
		case *ssa.Alloc:
			s = fmt.Sprintf("a:%s:%012d:%s:%s", t.Parent().String(), t.Pos(), t.Comment, t.Name())
		case *ssa.Global:
			s = "g:" + t.String()
		case *ssa.FreeVar:
			s = "f:" + t.Parent().String() + ":" + t.Name()
		case *ssa.Range:
			s = fmt.Sprintf("r:%s:%012d:%s", t.Parent().String(), t.Pos(), t.Name())
		case string:
			s = "s:" + t
		default:
			s = fmt.Sprintf("z:%v", k)
		}
		ks = append(ks, kv{k, s})
	}
	sort.Slice(ks, func(i, j int) bool { return ks[i].s < ks[j].s })
	out := make([]interface{}, len(ks))
	for i, e := range ks {
		out[i] = e.k
	}
	return out
}

var propertyTag = regexp.MustCompile(`C[0-9][0-9]\.`)

// invariantError: an invariant that names a local that no longer exists is contract drift (the
// invariant is dropped and the drift reported), anything else is an engine error.
func (x *Exec) invariantError(lname string, inv *Clause, err error) {
	msg := err.Error()
	if strings.Contains(msg, "unknown identifier") || strings.Contains(msg, "no field") || strings.Contains(msg, "unknown function") || strings.Contains(msg, "not a range") {
		e := x.u.eng
		e.driftMu.Lock()
		e.drift[lname] = fmt.Sprintf("invariant %q: %s", trunc(inv.Text, 80), msg)
		if !propertyTag.MatchString(inv.Name) && strings.Contains(lname, " / loop#") {
			// an unnamed loop invariant is a proof aid, not a clause of a property: if every
			// obligation is still discharged without it nothing was lost
			e.aidDrift[lname] = true
		}
		e.driftMu.Unlock()
		return
	}
	x.u.Errorf("%s: invariant %q: %v", lname, inv.Text, err)
}
