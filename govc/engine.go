package main

import (
	"encoding/json"
	"context"
	_ "embed"
	"fmt"
	"go/token"
	"go/types"
	"os"
	"path/filepath"
	"sort"
	"strings"
	"sync"

	"golang.org/x/tools/go/packages"
	"golang.org/x/tools/go/ssa"
	"golang.org/x/tools/go/ssa/ssautil"
)

//go:embed prelude.contracts
var preludeText string

const modulePath = "github.com/Vedant9500/WTF"

type Engine struct {
	fset    *token.FileSet
	prog    *ssa.Program
	pkgs    []*packages.Package
	allPkgs map[string]*packages.Package
	cs      *ContractSet
	fnIndex map[string]*ssa.Function
	repoDir string
	contractFiles []string
	effFree map[*ssa.Function]bool
	usable  map[*FuncContract]string // "" = usable, otherwise the reason the contract no longer fits the function
	driftMu sync.Mutex
	drift   map[string]string
	recorded map[string][]string // parameter and local names per function, in declaration order, when the contracts were written (/verif/locals.json)
	rtWritten map[*ssa.Global]string // package-level variables some function writes at run time (lazily computed)
	aidDrift map[string]bool     // drift entries that concern unnamed loop invariants (proof aids) only
	aliased  map[string]string   // functions in which a contract identifier was re-bound to a renamed parameter / local
}

// declaredNames: receiver, parameters and named locals (named results included) of fn in
// declaration order.
func declaredNames(fn *ssa.Function) []string {
	var out []string
	for _, p := range fn.Params {
		out = append(out, p.Name())
	}
	for _, a := range fn.Locals {
		if a.Comment != "" {
			out = append(out, a.Comment)
		}
	}
	// variables whose address escapes live on the heap: they are Alloc instructions in the body
	for _, b := range fn.Blocks {
		for _, in := range b.Instrs {
			if a, ok := in.(*ssa.Alloc); ok && a.Heap && a.Comment != "" {
				out = append(out, a.Comment)
			}
		}
	}
	return out
}

// renamedIdent: name is not an identifier of fn any more, but the function has as many
// parameters and locals as it had when the contracts were written and the one at name's
// declaration ordinal is now called something else.
func (e *Engine) renamedIdent(fn *ssa.Function, name string) (string, bool) {
	if e.recorded == nil {
		return "", false
	}
	pk, key := fnKey(fn)
	rec, ok := e.recorded[pk+"::"+key]
	cur := declaredNames(fn)
	if !ok || len(rec) != len(cur) {
		return "", false
	}
	base, ord := name, 0
	if i := strings.Index(name, "#"); i >= 0 {
		fmt.Sscanf(name[i+1:], "%d", &ord)
		base = name[:i]
	}
	seen := 0
	for k := range rec {
		if rec[k] != base {
			continue
		}
		seen++
		if ord > 0 && seen != ord {
			continue
		}
		if cur[k] == base {
			if ord > 0 {
				return "", false
			}
			continue
		}
		alt := cur[k]
		n, total := 0, 0
		for j := range cur {
			if cur[j] == alt {
				total++
				if j <= k {
					n++
				}
			}
		}
		if total > 1 {
			alt = fmt.Sprintf("%s#%d", alt, n)
		}
		return alt, true
	}
	return "", false
}

func (e *Engine) noteAlias(fn *ssa.Function, from, to string) {
	e.driftMu.Lock()
	defer e.driftMu.Unlock()
	k := fnDisplayName(fn)
	note := from + " -> " + to
	if !strings.Contains(e.aliased[k], note) {
		if e.aliased[k] != "" {
			e.aliased[k] += ", "
		}
		e.aliased[k] += note
	}
}

func LoadEngine(repoDir string) (*Engine, error) {
	cfg := &packages.Config{Mode: packages.LoadAllSyntax, Dir: repoDir, BuildFlags: []string{"-tags=verif"}, Tests: false}
	pkgs, err := packages.Load(cfg, "./...")
	if err != nil {
		return nil, err
	}
	var errs []string
	packages.Visit(pkgs, nil, func(p *packages.Package) {
		if strings.HasPrefix(p.PkgPath, modulePath) {
			for _, e := range p.Errors {
				errs = append(errs, e.Error())
			}
		}
	})
	if len(errs) > 0 {
		return nil, fmt.Errorf("repository does not type-check: %s", strings.Join(errs, "; "))
	}
	prog, _ := ssautil.AllPackages(pkgs, ssa.NaiveForm|ssa.GlobalDebug|ssa.InstantiateGenerics)
	prog.Build()
	e := &Engine{fset: prog.Fset, prog: prog, pkgs: pkgs, cs: NewContractSet(), fnIndex: map[string]*ssa.Function{}, repoDir: repoDir, allPkgs: map[string]*packages.Package{}, effFree: map[*ssa.Function]bool{}, usable: map[*FuncContract]string{}, drift: map[string]string{}, aliased: map[string]string{}, aidDrift: map[string]bool{}}
	if b, err := os.ReadFile(filepath.Join(verifDir, "locals.json")); err == nil {
		if err := json.Unmarshal(b, &e.recorded); err != nil {
			return nil, fmt.Errorf("locals.json: %v", err)
		}
	}
	packages.Visit(pkgs, nil, func(p *packages.Package) { e.allPkgs[p.PkgPath] = p })
	// function index
	for fn := range ssautil.AllFunctions(prog) {
		pk, key := fnKey(fn)
		if pk == "" {
			continue
		}
		k := pk + "::" + key
		if old, ok := e.fnIndex[k]; ok {
			// prefer the non-synthetic / origin one
			if old.Synthetic == "" {
				continue
			}
		}
		e.fnIndex[k] = fn
	}
	// contracts: prelude + contract files in the repo
	if err := e.cs.ParseContractText("", "prelude.contracts", preludeText); err != nil {
		return nil, err
	}
	for _, p := range pkgs {
		if !strings.HasPrefix(p.PkgPath, modulePath) {
			continue
		}
		for _, f := range p.GoFiles {
			if strings.HasSuffix(f, "zz_verif_contracts.go") {
				b, err := os.ReadFile(f)
				if err != nil {
					return nil, err
				}
				if err := e.cs.ParseContractText(p.PkgPath, f, string(b)); err != nil {
					return nil, err
				}
				e.contractFiles = append(e.contractFiles, f)
			}
		}
	}
	// every contract must name an existing function
	var missing []string
	for k, fc := range e.cs.Funcs {
		if _, ok := e.fnIndex[k]; !ok {
			missing = append(missing, fmt.Sprintf("%s (%s:%d)", k, filepath.Base(fc.File), fc.Line))
		}
	}
	// ... if it does not (renamed, turned into a method, removed), that is contract drift, not an
	// engine failure: the contract is dropped (callers of whatever replaced the function see its
	// body or nothing), the run goes on and reports what it can still decide
	_ = missing
	for k, fc := range e.cs.Funcs {
		if _, ok := e.fnIndex[k]; !ok {
			e.drift[strings.TrimPrefix(k, modulePath+"/internal/")] = fmt.Sprintf("the contract at %s:%d names a function that no longer exists (renamed, moved, or its receiver changed)", filepath.Base(fc.File), fc.Line)
			delete(e.cs.Funcs, k)
		}
	}
	// a spec function has one global definition: closed defines clauses of the same function in
	// different contracts must agree
	canon := map[string]string{}
	for k, fc := range e.cs.Funcs {
		for _, d := range fc.Defines {
			if closed, fname, c := closedDefinition(d.Expr); closed {
				if prev, ok := canon[fname]; ok && prev != c {
					return nil, fmt.Errorf("spec function %s is given two different definitions (second in %s)", fname, k)
				}
				canon[fname] = c
			}
		}
	}
	return e, nil
}

func (e *Engine) inRepo(fn *ssa.Function) bool {
	pk, _ := fnKey(fn)
	return strings.HasPrefix(pk, modulePath) || strings.HasPrefix(pk, "github.com/sahilm/fuzzy")
}

func (e *Engine) contractFor(fn *ssa.Function) *FuncContract {
	pk, key := fnKey(fn)
	if fc, ok := e.cs.Funcs[pk+"::"+key]; ok {
		if !fc.Assumed && fn.Blocks != nil && !e.contractUsable(fc, fn) {
			return degradedContract(fc)
		}
		return fc
	}
	return nil
}

func (e *Engine) typesPkgFor(path string) *types.Package {
	if p, ok := e.allPkgs[path]; ok {
		return p.Types
	}
	return nil
}

func (e *Engine) pkgByName(name string) *types.Package {
	var best *types.Package
	for path, p := range e.allPkgs {
		if p.Types != nil && p.Types.Name() == name {
			if best == nil || len(path) < len(best.Path()) {
				best = p.Types
			}
		}
	}
	return best
}

// LookupFunc finds a function by "pkg::Key" where pkg may be abbreviated to the last
// path element(s) of a repository package.
func (e *Engine) LookupFunc(name string) (*ssa.Function, string, error) {
	if fn, ok := e.fnIndex[name]; ok {
		return fn, name, nil
	}
	i := strings.Index(name, "::")
	if i < 0 {
		return nil, "", fmt.Errorf("function name %q: want pkg::Name", name)
	}
	short, key := name[:i], name[i+2:]
	var cands []string
	for k := range e.fnIndex {
		j := strings.Index(k, "::")
		if k[j+2:] == key && (strings.HasSuffix(k[:j], "/"+short) || k[:j] == short) {
			cands = append(cands, k)
		}
	}
	if len(cands) == 1 {
		return e.fnIndex[cands[0]], cands[0], nil
	}
	if len(cands) == 0 {
		return nil, "", fmt.Errorf("function %q not found", name)
	}
	sort.Strings(cands)
	// prefer repository packages
	for _, c := range cands {
		if strings.HasPrefix(c, modulePath) {
			return e.fnIndex[c], c, nil
		}
	}
	return nil, "", fmt.Errorf("function %q ambiguous: %v", name, cands)
}

// ---------------------------------------------------------------------------

type VerifyOpts struct {
	IgnoreRequires bool // C10-style unconstrained safety run
	SafetyOnly     bool
	Also           bool // verify the function against its second ("also") contract
}

// VerifyFunction generates all obligations of one function against its contract.
func (e *Engine) VerifyFunction(fn *ssa.Function, opts VerifyOpts) (u *Unit) {
	fc := e.contractFor(fn)
	name := fnDisplayName(fn)
	if opts.IgnoreRequires {
		name += " /unconstrained"
	}
	if opts.Also {
		pk, key := fnKey(fn)
		ac := e.cs.Also[pk+"::"+key]
		if ac == nil {
			u = &Unit{Name: name + " [also]"}
			u.errs = append(u.errs, "no 'also' contract for "+name)
			return u
		}
		if fc != nil && len(ac.Loops) == 0 {
			ac.Loops = fc.Loops
		}
		fc = ac
		name += " [also]"
	}
	u = &Unit{Name: name, W: NewWorld(), eng: e, nameCnt: map[string]int{}, usedAssumed: map[string]bool{}, usedPureUF: map[string]bool{},
		havocCalls: map[string]bool{}, inlined: map[string]bool{}, lockKeys: map[string]bool{}, hintTags: map[string]string{}, boxed: map[string]boxedVal{}}
	u.Fn = fn
	u.concurrent = fc != nil && fc.Opts["concurrent"] == "yes"
	u.interference = fc != nil && fc.Opts["interference"] == "yes"
	defer func() {
		if r := recover(); r != nil {
			if ea, ok := r.(execAbort); ok {
				u.errs = append(u.errs, "out of subset: "+ea.msg)
				u.OutOfSubset = ea.msg
				return
			}
			panic(r)
		}
	}()
	if fn.Blocks == nil {
		u.errs = append(u.errs, "no body")
		return
	}
	st := &State{cells: map[interface{}]Value{}, heaps: map[string]Term{}, gen: &Gen{kind: "init"}, u: u}
	st.alloc = u.W.Const("alloc@0", SInt)
	u.AssumeRaw(Ge(st.alloc, IntLit(1)))
	x := &Exec{u: u, fn: fn, regs: map[ssa.Value]Value{}, top: true, fc: fc, cellable: map[*ssa.Alloc]bool{}, freshBases: map[string]bool{}, prefix: name}
	x.alloc0 = st.alloc
	x.curBlockReach = TTrue
	for _, p := range fn.Params {
		sort := u.W.SortOf(p.Type())
		t := u.W.Const("arg."+p.Name(), sort)
		x.regs[p] = t
		f := u.typeFacts(t, p.Type(), st.alloc, 0)
		u.AssumeRaw(f)
		u.inputs = append(u.inputs, t.S)
	}
	if recv := fn.Signature.Recv(); recv != nil && len(fn.Params) > 0 {
		if _, isPtr := recv.Type().Underlying().(*types.Pointer); isPtr {
			// standing assumption: methods are called on non-nil receivers
			u.AssumeRaw(Not(Eq(x.regs[fn.Params[0]].(Term), TNil)))
			u.notes = append(u.notes, "pointer receivers are assumed non-nil")
		}
	}
	for _, fv := range fn.FreeVars {
		// free variables of a closure verified on its own: unknown heap cells
		et := fv.Type().Underlying().(*types.Pointer).Elem()
		key := "fv:" + fv.Name()
		t := u.W.Const("fv."+fv.Name(), u.W.SortOf(et))
		u.AssumeRaw(u.typeFacts(t, et, st.alloc, 0))
		st.cells[key] = t
		x.regs[fv] = &Loc{Kind: "cell", Key: key, Root: et}
	}
	// model terms for replay: scalar fields and slice lengths of struct parameters at entry
	for _, p := range fn.Params {
		pt, ok := p.Type().Underlying().(*types.Pointer)
		if !ok {
			continue
		}
		stt := structOf(pt.Elem())
		if stt == nil {
			continue
		}
		obj := Select(st.Heap(heapName(pt.Elem()), ArraySort(SPtr, u.W.SortOf(pt.Elem()))), x.regs[p].(Term))
		for i := 0; i < stt.NumFields() && i < 12; i++ {
			ft := stt.Field(i).Type()
			fv := u.W.FieldGet(pt.Elem(), obj, i)
			switch ft.Underlying().(type) {
			case *types.Basic:
				if fv.Sort == SInt || fv.Sort == SBool || fv.Sort == SReal {
					u.inputs = append(u.inputs, fv.S)
				}
			case *types.Slice:
				u.inputs = append(u.inputs, SlLen(fv).S)
			}
		}
	}
	for _, p := range fn.Params {
		if stt := structOf(p.Type()); stt != nil {
			if _, isPtr := p.Type().Underlying().(*types.Pointer); !isPtr {
				for i := 0; i < stt.NumFields() && i < 16; i++ {
					fv := u.W.FieldGet(p.Type(), x.regs[p].(Term), i)
					switch stt.Field(i).Type().Underlying().(type) {
					case *types.Basic:
						if fv.Sort == SInt || fv.Sort == SBool || fv.Sort == SReal {
							u.inputs = append(u.inputs, fv.S)
						}
					case *types.Slice:
						u.inputs = append(u.inputs, SlLen(fv).S)
					}
				}
			}
		}
	}
	st.cells["ghost.now"] = u.W.Const("now@0", SInt)
	x.entry = st.Clone()
	x.bindParams()
	pkPath, _ := fnKey(fn)
	e.assumeAxioms(u, x, pkPath)
	// frame
	if fc != nil && !opts.SafetyOnly {
		x.frame = x.frameFromContract(fc, fn, x.params, e.typesPkgFor(fc.Pkg), x.entry)
		x.frame.alloc0 = x.alloc0
	} else {
		x.frame = &Frame{any: true}
	}
	// unit-local definitions of declared-only spec functions (the function's own parameters are
	// in scope); sound because the defined symbol is otherwise uninterpreted
	if fc != nil {
		for _, d := range fc.Defines {
			env := x.specEnv(x.entry, nil)
			env.locals = false
			env.noAlts = true // assumed, not proved: witness alternatives would only enlarge the context
			g, err := env.EvalBool(d.Expr)
			if err != nil {
				u.Errorf("%s: defines %q: %v", name, d.Text, err)
				continue
			}
			u.AssumeRaw(g)
		}
	}
	// requires
	if fc != nil && !opts.IgnoreRequires {
		var reqs []Term
		for _, rq := range fc.Requires {
			env := x.specEnv(x.entry, nil)
			env.locals = false
			env.noAlts = true
			g, err := env.EvalBool(rq.Expr)
			if err != nil {
				u.Errorf("%s: requires %q: %v", name, rq.Text, err)
				continue
			}
			u.AssumeRaw(g)
			reqs = append(reqs, g)
		}
		if len(reqs) > 0 {
			o := u.AddObl(name+" / vacuity[requires-satisfiable]", "vacuity", "precondition is satisfiable", TTrue, TFalse, e.fset.Position(fn.Pos()), name)
			if o != nil {
				o.ExpectSat = true
			}
		}
	}
	// lock state named by the precondition (holds(p)) is the state the body starts in
	for k, v := range x.entry.cells {
		if ks, ok := k.(string); ok && strings.HasPrefix(ks, "lock:") {
			if _, seen := st.cells[k]; !seen {
				st.cells[k] = v
			}
		}
	}
	x.run(st, TTrue)
	// return sites are numbered in source order
	sort.SliceStable(x.rets, func(i, j int) bool { return x.rets[i].pos < x.rets[j].pos })
	for i := range x.rets {
		x.rets[i].ord = i + 1
	}
	// postconditions per return site
	if fc != nil && !opts.SafetyOnly {
		names := resultNames(fn.Signature)
		for _, r := range x.rets {
			vars := map[string]SVal{}
			res := fn.Signature.Results()
			for i := 0; i < res.Len(); i++ {
				vars[names[i]] = SVal{T: x.term(r.vals[i]), GT: res.At(i).Type()}
			}
			for i, en := range fc.Ensures {
				if en.Trusted {
					u.usedAssumed[fmt.Sprintf("trusted postcondition of %s: %s", name, en.Text)] = true
					continue
				}
				env := x.specEnv(r.st, vars)
				env.locals = false
				env.reach = r.reach
				g, err := env.EvalBool(en.Expr)
				if err != nil {
					u.Errorf("%s: ensures %q: %v", name, en.Text, err)
					continue
				}
				u.AddObl(fmt.Sprintf("%s / ensures[%s] @return#%d", name, clauseName(en, i), r.ord), "ensures", en.Text, r.reach, g, e.fset.Position(r.pos), name)
			}
			so := u.AddObl(fmt.Sprintf("%s / smoke[return#%d reachable]", name, r.ord), "vacuity", "return site is reachable under the assumptions in force (assumptions are consistent)", r.reach, TFalse, e.fset.Position(r.pos), name)
			if so != nil {
				so.ExpectSat = true
			}
			// locks released
			for k := range u.lockKeys {
				if held, ok := r.st.cells[k].(Term); ok {
					atEntry := Term(IntLit(0))
					if eh, ok := x.entry.cells[k].(Term); ok {
						atEntry = eh
					}
					u.AddObl(fmt.Sprintf("%s / lock[released] @return#%d", name, r.ord), "lock", "every mutex acquired is released on return (the lock state is as at entry)", r.reach, Eq(held, atEntry), e.fset.Position(r.pos), name)
				}
			}
		}
	}
	u.Returns = len(x.rets)
	return u
}

// bindParams makes parameter entry values available to specs.
func (x *Exec) bindParams() {
	x.params = map[string]SVal{}
	for _, p := range x.fn.Params {
		if t, ok := x.regs[p].(Term); ok {
			x.params[p.Name()] = SVal{T: t, GT: p.Type()}
		}
	}
}

// ---------------------------------------------------------------------------
// Discharging obligations

func (e *Engine) Discharge(obls []*Obligation, dir string, timeout int, all bool, progress func(*Obligation)) {
	var wg sync.WaitGroup
	sem := make(chan struct{}, 12)
	for i, o := range obls {
		wg.Add(1)
		go func(i int, o *Obligation) {
			defer wg.Done()
			sem <- struct{}{}
			defer func() { <-sem }()
			q := o.Query()
			o.QuerySize = len(q)
			if len(q) > 4<<20 {
				o.Res = SolverResult{Verdict: "tool-limit", Output: fmt.Sprintf("query of %d bytes exceeds the 4 MB cap", len(q))}
			} else {
				name := fmt.Sprintf("q%04d", i)
				o.File = filepath.Join(dir, name+".smt2")
				if o.ExpectSat {
					// satisfiability smoke checks: one solver, short
					r := runOne(context.Background(), solvers[0], writeQuery(dir, name, q), 2)
					o.Res = SolverResult{Verdict: r.Verdict, Solver: r.Solver, Seconds: r.Seconds, All: []SolverRun{r}}
				} else {
					o.Res = solveSplit(o, dir, name, q, timeout, all)
				}
				if o.Res.Verdict == "sat" && !o.ExpectSat && len(o.Unit.inputs) > 0 {
					o.Model = GetModel(dir, name, q, o.Unit.inputs, o.Res.Solver, 10)
				}
			}
			if progress != nil {
				progress(o)
			}
		}(i, o)
	}
	wg.Wait()
}

// Holds: did the obligation discharge?
func (o *Obligation) Holds() bool {
	if o.ExpectSat {
		return o.Res.Verdict != "unsat" // satisfiable or unknown: not vacuous
	}
	return o.Res.Verdict == "unsat"
}

func writeQuery(dir, name, q string) string {
	f := filepath.Join(dir, name+".smt2")
	os.WriteFile(f, []byte(q), 0o644)
	return f
}

// assumeAxioms asserts the axioms of the prelude and of the given package in unit u.
func (e *Engine) assumeAxioms(u *Unit, x *Exec, pkgPath string) {
	for _, l := range e.cs.Lemmas {
		if !l.Axiom || (l.Pkg != "" && l.Pkg != pkgPath) {
			continue
		}
		// an axiom about a declared-only spec function (nulFree, ...) is of use only where the unit's
		// own contract speaks of that function; elsewhere it is a quantifier over all strings that
		// costs the solver time for nothing (met: it pushed an unrelated cut of SearchUniversal over
		// the time limit)
		if l.Local && x != nil && x.fn != nil {
			needs := map[string]bool{}
			var walk func(n *SExpr)
			walk = func(n *SExpr) {
				if n == nil {
					return
				}
				if n.Kind == "call" {
					if pf, ok := e.cs.Pures[n.Args[0].String()]; ok && pf.Body == nil {
						needs[pf.Name] = true
					}
				}
				for _, a := range n.Args {
					walk(a)
				}
			}
			walk(l.Expr)
			if len(needs) > 0 {
				relevant := false
				if fc := x.fc; fc != nil {
					var cls []*Clause
					cls = append(append(append(cls, fc.Requires...), fc.Ensures...), fc.Defines...)
					for _, h := range fc.Hints {
						cls = append(cls, h.C)
					}
					for _, lc := range fc.Loops {
						cls = append(cls, lc.Invariants...)
					}
					for _, c := range cls {
						if c != nil && e.specMentions(c.Expr, needs, l.Pkg) {
							relevant = true
							break
						}
					}
				}
				if !relevant {
					continue
				}
			}
		}
		env := &SpecEnv{u: u, x: x, pkg: e.typesPkgFor(l.Pkg), vars: map[string]SVal{}, bound: map[string]SVal{}, cur: x.entry, old: x.entry, reach: TTrue}
		if env.pkg == nil {
			env.pkg = e.typesPkgFor(pkgPath)
		}
		g, err := env.EvalBool(l.Expr)
		if err != nil {
			u.Errorf("axiom %s: %v", l.Name, err)
			continue
		}
		u.AssumeRaw(g)
		u.usedAssumed["axiom "+l.Name+": "+l.Text] = true
	}
}

// VerifyLemmas proves the lemmas of a package from its axioms alone.
func (e *Engine) VerifyLemmas(pkgPath string, names []string) *Unit {
	u := &Unit{Name: "lemmas " + pkgPath, W: NewWorld(), eng: e, nameCnt: map[string]int{}, usedAssumed: map[string]bool{}, usedPureUF: map[string]bool{},
		havocCalls: map[string]bool{}, inlined: map[string]bool{}, lockKeys: map[string]bool{}, hintTags: map[string]string{}, boxed: map[string]boxedVal{}}
	st := &State{cells: map[interface{}]Value{}, heaps: map[string]Term{}, gen: &Gen{kind: "init"}, u: u}
	st.alloc = u.W.Const("alloc@0", SInt)
	x := &Exec{u: u, regs: map[ssa.Value]Value{}, cellable: map[*ssa.Alloc]bool{}, freshBases: map[string]bool{}, prefix: u.Name, entry: st, alloc0: st.alloc}
	x.curBlockReach = TTrue
	e.assumeAxioms(u, x, pkgPath)
	want := map[string]bool{}
	for _, n := range names {
		want[n] = true
	}
	for _, l := range e.cs.Lemmas {
		if l.Axiom || l.Pkg != pkgPath || (len(want) > 0 && !want[l.Name]) {
			continue
		}
		env := &SpecEnv{u: u, x: x, pkg: e.typesPkgFor(pkgPath), vars: map[string]SVal{}, bound: map[string]SVal{}, cur: st, old: st, reach: TTrue}
		g, err := env.EvalBool(l.Expr)
		if err != nil {
			u.Errorf("lemma %s: %v", l.Name, err)
			continue
		}
		delete(want, l.Name)
		u.AddObl(fmt.Sprintf("lemma %s / %s", shortPkg(pkgPath), l.Name), "lemma", l.Text, TTrue, g, token.Position{Filename: l.File, Line: l.Line}, u.Name)
	}
	for n := range want {
		u.Errorf("lemma %s not found in %s", n, pkgPath)
	}
	return u
}

func shortPkg(p string) string {
	if i := strings.LastIndex(p, "/"); i >= 0 {
		return p[i+1:]
	}
	return p
}

// solveSplit: the whole goal first (short), then — if that is not decided — each conjunct of the
// goal on its own; the obligation is discharged when every conjunct is.
func solveSplit(o *Obligation, dir, name, q string, timeout int, all bool) SolverResult {
	pieces := splitGoal(o.Goal.S, 32)
	if len(pieces) <= 1 {
		return Solve(dir, name, q, timeout, all)
	}
	first := runOne(context.Background(), solvers[0], writeQuery(dir, name, q), 3)
	if first.Verdict == "unsat" && !all {
		return SolverResult{Verdict: "unsat", Solver: first.Solver, Seconds: first.Seconds, All: []SolverRun{first}}
	}
	res := SolverResult{Verdict: "unsat", All: []SolverRun{first}}
	marker := "(assert (not " + o.Goal.S + "))"
	for i, p := range pieces {
		pq := strings.Replace(q, marker, "(assert (not "+p+"))", 1)
		r := Solve(dir, fmt.Sprintf("%s.c%d", name, i), pq, timeout, all)
		res.All = append(res.All, r.All...)
		res.Seconds += r.Seconds
		if r.Solver != "" {
			res.Solver = r.Solver
		}
		if r.Verdict != "unsat" {
			res.Verdict = r.Verdict
			res.Output = fmt.Sprintf("conjunct %d of %d: %s", i+1, len(pieces), trunc(p, 300))
			return res
		}
	}
	return res
}

// contractUsable: do the clauses of fc still make sense for fn (every identifier resolves)? A
// contract that names a parameter, result or field that no longer exists is reported as drift and
// ignored: the function is then inlined at its call sites and verified without its contract.
func (e *Engine) contractUsable(fc *FuncContract, fn *ssa.Function) (ok bool) {
	if fc == nil {
		return true
	}
	if r, done := e.usable[fc]; done {
		return r == ""
	}
	reason := ""
	func() {
		u := &Unit{Name: "dry-run", W: NewWorld(), eng: e, nameCnt: map[string]int{}, usedAssumed: map[string]bool{}, usedPureUF: map[string]bool{},
			havocCalls: map[string]bool{}, inlined: map[string]bool{}, lockKeys: map[string]bool{}, hintTags: map[string]string{}, boxed: map[string]boxedVal{}}
		st := &State{cells: map[interface{}]Value{}, heaps: map[string]Term{}, gen: &Gen{kind: "init"}, u: u}
		st.alloc = u.W.Const("alloc@0", SInt)
		x := &Exec{u: u, fn: fn, regs: map[ssa.Value]Value{}, fc: fc, cellable: map[*ssa.Alloc]bool{}, freshBases: map[string]bool{}, prefix: "dry-run", entry: st, alloc0: st.alloc}
		x.curBlockReach = TTrue
		vars := map[string]SVal{}
		for _, p := range fn.Params {
			t := u.W.Const("arg."+p.Name(), u.W.SortOf(p.Type()))
			x.regs[p] = t
			vars[p.Name()] = SVal{T: t, GT: p.Type()}
		}
		x.params = vars
		post := map[string]SVal{}
		for k, v := range vars {
			post[k] = v
		}
		names := resultNames(fn.Signature)
		res := fn.Signature.Results()
		for i := 0; i < res.Len(); i++ {
			post[names[i]] = SVal{T: u.W.Const("res."+names[i], u.W.SortOf(res.At(i).Type())), GT: res.At(i).Type()}
		}
		pkg := e.typesPkgFor(fc.Pkg)
		try := func(c *Clause, vs map[string]SVal) {
			env := &SpecEnv{u: u, x: x, pkg: pkg, vars: vs, bound: map[string]SVal{}, cur: st, old: st, reach: TTrue}
			if _, err := env.Eval(c.Expr); err != nil && reason == "" {
				msg := err.Error()
				if strings.Contains(msg, "unknown identifier") || strings.Contains(msg, "no field") || strings.Contains(msg, "unknown function") || strings.Contains(msg, "no method") {
					reason = fmt.Sprintf("%s clause %q: %s", c.Kind, trunc(c.Text, 80), msg)
				}
			}
		}
		for _, c := range fc.Requires {
			try(c, vars)
		}
		for _, c := range fc.Defines {
			try(c, vars)
		}
		for _, c := range fc.Ensures {
			try(c, post)
		}
		for _, item := range fc.Modifies {
			env := &SpecEnv{u: u, x: x, pkg: pkg, vars: vars, bound: map[string]SVal{}, cur: st, old: st, reach: TTrue}
			if _, err := env.frameItem(item); err != nil && reason == "" {
				msg := err.Error()
				if strings.Contains(msg, "unknown identifier") || strings.Contains(msg, "no field") {
					reason = fmt.Sprintf("modifies %q: %s", item, msg)
				}
			}
		}
	}()
	e.usable[fc] = reason
	if reason != "" {
		e.driftMu.Lock()
		e.drift[fnDisplayName(fn)] = reason
		e.driftMu.Unlock()
	}
	return reason == ""
}

// degradedContract: what is left of a drifted contract — its loop invariants only.
func degradedContract(fc *FuncContract) *FuncContract {
	return &FuncContract{Key: fc.Key, Pkg: fc.Pkg, Loops: fc.Loops, Opts: map[string]string{"inline": "yes"}, File: fc.File, Line: fc.Line}
}
