package main

import (
	"bytes"
	"context"
	"fmt"
	"os"
	"os/exec"
	"path/filepath"
	"strings"
	"sync"
	"time"
)

// Term is an SMT-LIB term with its sort (sort is an SMT-LIB sort string).
type Term struct {
	S    string
	Sort string
}

func (t Term) String() string { return t.S }

const (
	SInt   = "Int"
	SBool  = "Bool"
	SReal  = "Real"
	SStr   = "Str"
	SPtr   = "Ptr"
	SSlice = "Slice"
	SIface = "Iface"
	SFn    = "Fn"
)

var (
	TTrue  = Term{"true", SBool}
	TFalse = Term{"false", SBool}
	TNil   = Term{"nilp", SPtr}
)

func app(sort, f string, args ...Term) Term {
	var b strings.Builder
	b.WriteByte('(')
	b.WriteString(f)
	for _, a := range args {
		b.WriteByte(' ')
		b.WriteString(a.S)
	}
	b.WriteByte(')')
	return Term{b.String(), sort}
}

func IntLit(n int64) Term {
	if n < 0 {
		return Term{fmt.Sprintf("(- %d)", -n), SInt}
	}
	return Term{fmt.Sprintf("%d", n), SInt}
}

func IntLitStr(s string) Term {
	if strings.HasPrefix(s, "-") {
		return Term{"(- " + s[1:] + ")", SInt}
	}
	return Term{s, SInt}
}

func BoolLit(b bool) Term {
	if b {
		return TTrue
	}
	return TFalse
}

func And(ts ...Term) Term {
	var xs []Term
	for _, t := range ts {
		if t.S == "true" {
			continue
		}
		if t.S == "false" {
			return TFalse
		}
		xs = append(xs, t)
	}
	if len(xs) == 0 {
		return TTrue
	}
	if len(xs) == 1 {
		return xs[0]
	}
	return app(SBool, "and", xs...)
}

func Or(ts ...Term) Term {
	var xs []Term
	for _, t := range ts {
		if t.S == "false" {
			continue
		}
		if t.S == "true" {
			return TTrue
		}
		xs = append(xs, t)
	}
	if len(xs) == 0 {
		return TFalse
	}
	if len(xs) == 1 {
		return xs[0]
	}
	return app(SBool, "or", xs...)
}

func Not(t Term) Term {
	if t.S == "true" {
		return TFalse
	}
	if t.S == "false" {
		return TTrue
	}
	if strings.HasPrefix(t.S, "(not ") {
		return Term{t.S[5 : len(t.S)-1], SBool}
	}
	return app(SBool, "not", t)
}

func Implies(a, b Term) Term {
	if a.S == "true" {
		return b
	}
	if a.S == "false" || b.S == "true" {
		return TTrue
	}
	return app(SBool, "=>", a, b)
}

func Eq(a, b Term) Term {
	if a.S == b.S {
		return TTrue
	}
	a, b = coerceNum(a, b)
	return app(SBool, "=", a, b)
}

func Ite(c, a, b Term) Term {
	if c.S == "true" {
		return a
	}
	if c.S == "false" {
		return b
	}
	if a.S == b.S {
		return a
	}
	a, b = coerceNum(a, b)
	return app(a.Sort, "ite", c, a, b)
}

func coerceNum(a, b Term) (Term, Term) {
	if a.Sort == SReal && b.Sort == SInt {
		return a, ToReal(b)
	}
	if a.Sort == SInt && b.Sort == SReal {
		return ToReal(a), b
	}
	return a, b
}

func ToReal(t Term) Term {
	if t.Sort == SReal {
		return t
	}
	// literal fast path
	if isDigits(t.S) {
		return Term{t.S + ".0", SReal}
	}
	return app(SReal, "to_real", t)
}

func isDigits(s string) bool {
	if s == "" {
		return false
	}
	for _, c := range s {
		if c < '0' || c > '9' {
			return false
		}
	}
	return true
}

func Select(arr, idx Term) Term {
	// arr sort is "(Array K V)"
	_, v := arraySorts(arr.Sort)
	return app(v, "select", arr, idx)
}

func Store(arr, idx, val Term) Term {
	return app(arr.Sort, "store", arr, idx, val)
}

func ArraySort(k, v string) string { return "(Array " + k + " " + v + ")" }

// arraySorts splits "(Array K V)" into K and V.
func arraySorts(s string) (string, string) {
	if !strings.HasPrefix(s, "(Array ") {
		panic("not an array sort: " + s)
	}
	body := s[len("(Array ") : len(s)-1]
	// split top-level
	depth := 0
	for i, c := range body {
		switch c {
		case '(':
			depth++
		case ')':
			depth--
		case ' ':
			if depth == 0 {
				return body[:i], body[i+1:]
			}
		}
	}
	panic("bad array sort: " + s)
}

func ConstArray(sort string, v Term) Term {
	return Term{"((as const " + sort + ") " + v.S + ")", sort}
}

func MkPtr(base, idx Term) Term { return app(SPtr, "mkp", base, idx) }
func PBase(p Term) Term         { return app(SInt, "p.base", p) }
func PIdx(p Term) Term          { return app(SInt, "p.idx", p) }
var sliceParts sync.Map // term string of (mk-slice p l c) -> [3]Term

func MkSlice(p, l, c Term) Term {
	t := app(SSlice, "mk-slice", p, l, c)
	sliceParts.Store(t.S, [3]Term{p, l, c})
	return t
}
func SlPtr(s Term) Term {
	if v, ok := sliceParts.Load(s.S); ok {
		return v.([3]Term)[0]
	}
	if s.S == "nil-slice" {
		return TNil
	}
	return app(SPtr, "sl.ptr", s)
}
func SlLen(s Term) Term {
	if v, ok := sliceParts.Load(s.S); ok {
		return v.([3]Term)[1]
	}
	if s.S == "nil-slice" {
		return IntLit(0)
	}
	return app(SInt, "sl.len", s)
}
func SlCap(s Term) Term {
	if v, ok := sliceParts.Load(s.S); ok {
		return v.([3]Term)[2]
	}
	if s.S == "nil-slice" {
		return IntLit(0)
	}
	return app(SInt, "sl.cap", s)
}

// Elem: address of element i. Always padd(ptr, i), also for i = 0, so that quantified facts
// about elements trigger on one shape of term.
func Elem(s, i Term) Term { return app(SPtr, "padd", SlPtr(s), i) }
func PtrAdd(p, i Term) Term {
	if i.S == "0" {
		return p
	}
	return app(SPtr, "padd", p, i)
}
func Add(a, b Term) Term {
	a, b = coerceNum(a, b)
	if b.S == "0" {
		return a
	}
	if a.S == "0" {
		return b
	}
	return app(a.Sort, "+", a, b)
}
func Sub(a, b Term) Term {
	a, b = coerceNum(a, b)
	if b.S == "0" {
		return a
	}
	return app(a.Sort, "-", a, b)
}
func Mul(a, b Term) Term { a, b = coerceNum(a, b); return app(a.Sort, "*", a, b) }
func Le(a, b Term) Term  { a, b = coerceNum(a, b); return app(SBool, "<=", a, b) }
func Lt(a, b Term) Term  { a, b = coerceNum(a, b); return app(SBool, "<", a, b) }
func Ge(a, b Term) Term  { a, b = coerceNum(a, b); return app(SBool, ">=", a, b) }
func Gt(a, b Term) Term  { a, b = coerceNum(a, b); return app(SBool, ">", a, b) }

var NilSlice = Term{"nil-slice", SSlice}

// Prelude shared by all queries.
const smtPrelude = `(set-option :produce-models true)
(set-logic ALL)
(declare-sort Str 0)
(declare-sort Iface 0)
(declare-sort Fn 0)
(declare-sort Opaque 0)
(declare-datatypes ((Ptr 0)) (((mkp (p.base Int) (p.idx Int)))))
(declare-datatypes ((Slice 0)) (((mk-slice (sl.ptr Ptr) (sl.len Int) (sl.cap Int)))))
(define-fun nilp () Ptr (mkp 0 0))
(define-fun nil-slice () Slice (mk-slice nilp 0 0))
(declare-fun padd (Ptr Int) Ptr)
(assert (forall ((p Ptr) (i Int)) (! (and (= (p.base (padd p i)) (p.base p)) (= (p.idx (padd p i)) (+ (p.idx p) i))) :pattern ((padd p i)))))
(declare-fun s.len (Str) Int)
(declare-fun s.cat (Str Str) Str)
(declare-fun s.at (Str Int) Int)
(declare-fun s.sub (Str Int Int) Str)
(declare-fun s.lt (Str Str) Bool)
(declare-const s.empty Str)
(assert (= (s.len s.empty) 0))
(assert (forall ((s Str)) (! (>= (s.len s) 0) :pattern ((s.len s)))))
(assert (forall ((s Str)) (! (=> (= (s.len s) 0) (= s s.empty)) :pattern ((s.len s)))))
(assert (forall ((a Str) (b Str)) (! (= (s.len (s.cat a b)) (+ (s.len a) (s.len b))) :pattern ((s.cat a b)))))
(declare-const iface.nil Iface)
(declare-fun iface.tag (Iface) Int)
(assert (= (iface.tag iface.nil) 0))
(define-fun trunc ((x Real)) Int (ite (>= x 0.0) (to_int x) (- (to_int (- x)))))
(define-fun gdiv ((a Int) (b Int)) Int (ite (>= a 0) (ite (> b 0) (div a b) (- (div a (- b)))) (ite (> b 0) (- (div (- a) b)) (div (- a) (- b)))))
(define-fun gmod ((a Int) (b Int)) Int (- a (* b (gdiv a b))))
`

// ---------------------------------------------------------------------------
// Solver running

type SolverResult struct {
	Verdict string // "unsat", "sat", "unknown", "timeout", "error"
	Solver  string
	Seconds float64
	Output  string
	All     []SolverRun
}

type SolverRun struct {
	Solver  string  `json:"solver"`
	Verdict string  `json:"verdict"`
	Seconds float64 `json:"seconds"`
}

var solverSem = make(chan struct{}, 14)

type solverSpec struct {
	name string
	args func(file string, timeout int) []string
}

var solvers = []solverSpec{
	{"z3-new", func(f string, t int) []string { return []string{"z3-new", fmt.Sprintf("-T:%d", t), f} }},
	{"z3", func(f string, t int) []string { return []string{"z3", fmt.Sprintf("-T:%d", t), f} }},
	// e-matching only (no model-based quantifier instantiation, no auto-configuration): decides
	// the deep instantiation chains on which the default configuration wanders; it answers
	// unsat or unknown, never a spurious sat
	{"z3-new-em", func(f string, t int) []string {
		return []string{"z3-new", fmt.Sprintf("-T:%d", t), "smt.mbqi=false", "smt.auto_config=false", f}
	}},
	{"z3-em", func(f string, t int) []string {
		return []string{"z3", fmt.Sprintf("-T:%d", t), "smt.mbqi=false", "smt.auto_config=false", f}
	}},
	{"z3-new-na", func(f string, t int) []string {
		return []string{"z3-new", fmt.Sprintf("-T:%d", t), "smt.auto_config=false", f}
	}},
	{"cvc5", func(f string, t int) []string {
		return []string{"cvc5", fmt.Sprintf("--tlimit=%d", t*1000), "--produce-models", f}
	}},
}

func runOne(ctx context.Context, sp solverSpec, file string, timeout int) SolverRun {
	solverSem <- struct{}{}
	defer func() { <-solverSem }()
	if ctx.Err() != nil {
		return SolverRun{sp.name, "cancelled", 0}
	}
	start := time.Now()
	args := sp.args(file, timeout)
	cctx, cancel := context.WithTimeout(ctx, time.Duration(timeout+2)*time.Second)
	defer cancel()
	cmd := exec.CommandContext(cctx, args[0], args[1:]...)
	var out bytes.Buffer
	cmd.Stdout = &out
	cmd.Stderr = &out
	_ = cmd.Run()
	sec := time.Since(start).Seconds()
	first := strings.TrimSpace(strings.SplitN(out.String(), "\n", 2)[0])
	v := "unknown"
	switch {
	case first == "unsat":
		v = "unsat"
	case first == "sat":
		v = "sat"
	case strings.Contains(first, "timeout") || cctx.Err() != nil:
		v = "timeout"
	case strings.HasPrefix(first, "(error") || strings.Contains(first, "rror"):
		v = "error:" + first
	case first == "unknown":
		v = "unknown"
	default:
		if ctx.Err() != nil {
			v = "cancelled"
		} else if first != "" {
			v = "error:" + first
		}
	}
	return SolverRun{sp.name, v, sec}
}

// Solve writes the query and races the solvers. quickFirst: try z3-new alone with a short
// timeout first (most obligations discharge at once).
func Solve(dir, name, query string, timeout int, all bool) SolverResult {
	file := filepath.Join(dir, name+".smt2")
	if err := os.WriteFile(file, []byte(query), 0o644); err != nil {
		return SolverResult{Verdict: "error", Output: err.Error()}
	}
	res := SolverResult{}
	if !all {
		// stage 1: z3-new alone, short
		short := 3
		if timeout < short {
			short = timeout
		}
		sctx, scancel := context.WithCancel(context.Background())
		sch := make(chan SolverRun, 3)
		for _, sp := range []solverSpec{solvers[0], solvers[2], solvers[3]} {
			go func(sp solverSpec) { sch <- runOne(sctx, sp, file, short) }(sp)
		}
		for i := 0; i < 3; i++ {
			r := <-sch
			res.All = append(res.All, r)
			if (r.Verdict == "unsat" || r.Verdict == "sat") && res.Verdict == "" {
				res.Verdict, res.Solver, res.Seconds = r.Verdict, r.Solver, r.Seconds
				scancel()
			}
		}
		scancel()
		if res.Verdict != "" {
			return res
		}
	}
	ctx, cancel := context.WithCancel(context.Background())
	defer cancel()
	ch := make(chan SolverRun, len(solvers))
	var wg sync.WaitGroup
	for _, sp := range solvers {
		wg.Add(1)
		go func(sp solverSpec) {
			defer wg.Done()
			ch <- runOne(ctx, sp, file, timeout)
		}(sp)
	}
	go func() { wg.Wait(); close(ch) }()
	verdict := ""
	for r := range ch {
		res.All = append(res.All, r)
		if r.Verdict == "unsat" || r.Verdict == "sat" {
			if verdict == "" {
				verdict = r.Verdict
				res.Verdict, res.Solver, res.Seconds = r.Verdict, r.Solver, r.Seconds
				if !all {
					cancel()
				} else {
					// thorough tier: give the other configurations a few seconds for a second
					// opinion (a disagreement is an engine error), then stop them - waiting for
					// every configuration's time-out on every obligation would take hours
					time.AfterFunc(3*time.Second, cancel)
				}
			} else if verdict != r.Verdict {
				res.Verdict = "disagree"
			}
		}
	}
	if res.Verdict == "" {
		res.Verdict = "unknown"
		for _, r := range res.All {
			if r.Verdict == "timeout" {
				res.Verdict = "timeout"
			}
			res.Seconds += r.Seconds
		}
		allErr := true
		for _, r := range res.All {
			if !strings.HasPrefix(r.Verdict, "error") {
				allErr = false
			}
		}
		if allErr {
			res.Verdict = "error"
			for _, r := range res.All {
				res.Output += r.Solver + ":" + r.Verdict + "; "
			}
		}
	}
	return res
}

// GetModel reruns one solver with (get-value ...) for the given terms; best effort.
func GetModel(dir, name, query string, terms []string, solver string, timeout int) map[string]string {
	if len(terms) == 0 {
		return nil
	}
	q := strings.Replace(query, "(check-sat)\n", "(check-sat)\n(get-value ("+strings.Join(terms, " ")+"))\n", 1)
	file := filepath.Join(dir, name+".model.smt2")
	os.WriteFile(file, []byte(q), 0o644)
	var sp solverSpec
	for _, s := range solvers {
		if s.name == solver {
			sp = s
		}
	}
	if sp.name == "" {
		sp = solvers[0]
	}
	args := sp.args(file, timeout)
	ctx, cancel := context.WithTimeout(context.Background(), time.Duration(timeout+2)*time.Second)
	defer cancel()
	out, _ := exec.CommandContext(ctx, args[0], args[1:]...).CombinedOutput()
	s := string(out)
	if !strings.HasPrefix(strings.TrimSpace(s), "sat") {
		return nil
	}
	s = s[strings.Index(s, "sat")+3:]
	// parse ((term value) (term value) ...)
	sx := parseSexps(s)
	res := map[string]string{}
	if len(sx) == 1 {
		for _, pair := range sx[0].kids {
			if len(pair.kids) == 2 {
				res[pair.kids[0].String()] = pair.kids[1].String()
			}
		}
	}
	return res
}

type sexp struct {
	atom string
	kids []*sexp
	list bool
}

func (s *sexp) String() string {
	if !s.list {
		return s.atom
	}
	parts := make([]string, len(s.kids))
	for i, k := range s.kids {
		parts[i] = k.String()
	}
	return "(" + strings.Join(parts, " ") + ")"
}

func parseSexps(s string) []*sexp {
	var stack []*sexp
	root := &sexp{list: true}
	cur := root
	i := 0
	for i < len(s) {
		c := s[i]
		switch {
		case c == '(':
			n := &sexp{list: true}
			cur.kids = append(cur.kids, n)
			stack = append(stack, cur)
			cur = n
			i++
		case c == ')':
			if len(stack) > 0 {
				cur = stack[len(stack)-1]
				stack = stack[:len(stack)-1]
			}
			i++
		case c == ' ' || c == '\n' || c == '\t' || c == '\r':
			i++
		case c == '|':
			j := strings.IndexByte(s[i+1:], '|')
			if j < 0 {
				j = len(s) - i - 1
			}
			cur.kids = append(cur.kids, &sexp{atom: s[i : i+j+2]})
			i += j + 2
		case c == '"':
			j := i + 1
			for j < len(s) && s[j] != '"' {
				j++
			}
			cur.kids = append(cur.kids, &sexp{atom: s[i : j+1]})
			i = j + 1
		default:
			j := i
			for j < len(s) && !strings.ContainsRune("() \n\t\r", rune(s[j])) {
				j++
			}
			cur.kids = append(cur.kids, &sexp{atom: s[i:j]})
			i = j
		}
	}
	return root.kids
}
